import TypifyModel.Proofs.C03
import TypifyModel.Proofs.Lemmas.ContainEnum
import TypifyModel.Proofs.Lemmas.ContainFlat
/-! # C03 — round trip keeps declared data (the containment clause)

`rt_contains`: for every IR σ, every set `S` of type ids closed under reference whose entries satisfy
the decidable side conditions `entryOkB` (Model/RoundTrip.lean — the same ones as `de_se_de`), every
type in `S`, every fuel and every document `v` that is wire-shaped for the type and contains only
declared members (`declared`, Model/Contain.lean): if `de v = ok a` and `se a = ok w` then
`prune v` is contained in `prune w` — objects by member, arrays element-wise, numbers numerically;
`prune` drops object members whose value is null / [] / {} (bottom-up).

All four evaluations (`declared`, `de`, `se`) use the same fuel. The induction is the one of
`de_se_de` (Proofs/C03.lean): three predicates over fuel — types (`CatS`), struct member lists
(`Scat`), variant bodies (`Vcat`).

Hypotheses, and why each is needed (counterexamples as `example`s at the end of the file):
* `declared`: an undeclared member of a struct is dropped by `de` (`deny_unknown_fields` absent), so it
  is not in `w` (`ex_undeclared`).
* `declared` asks for the *wire shape* of a data-less variant of an externally tagged enum, the bare
  string `"V"`. serde also reads `{"V": null}`, writes `"V"`, and `{}` (= `prune {"V": null}`) is not
  contained in a string (`ex_external_unit_object`). That document is not schema-valid either.
* `closedOkB`: untagged enums are outside (`entryOkB`), as are internally tagged newtype/tuple variants. -/
namespace TypifyModel.C03
open TypifyModel TypifyModel.Serde TypifyModel.RoundTrip TypifyModel.Contain

/-- containment at one type and fuel -/
def Cat (x : Ext) (σ : Space) (f : Nat) (t : Id) : Prop :=
  ∀ v a w, declared σ f t v = true → de x σ f t v = .ok a → se σ f t a = .ok w →
    contained (prune v) (prune w) = true

variable (x : Ext) (σ : Space) (S : List Id)

def CatS (f : Nat) : Prop := ∀ t ∈ S, Cat x σ f t

/-- struct level: the members of the pruned input object are contained in the written members -/
def Scat (f : Nat) : Prop :=
  ∀ (ps : List Field) (deny : Bool) (kvs : List (String × Json)) (fs : List (String × Val))
    (es : List (String × Json)),
    (∀ p ∈ ps, p.ty ∈ S) → (fieldsOkB σ ps || fieldsOkFlatB σ ps) = true →
    declaredStruct σ f ps (.obj kvs) = true →
    deStruct x σ f ps deny (.obj kvs) = .ok (.struct fs) → seStruct σ f ps fs = .ok es →
    containedObj (pruneObj kvs) (pruneObj es) = true

/-- variant-body level -/
def Vcat (f : Nat) : Prop :=
  ∀ (d : VDetails) (deny sq : Bool) (v : Json) (p : Val) (w : Json),
    (∀ c ∈ idsOfD d, c ∈ S) → detailsOk σ d →
    declaredBody σ f d v = true →
    deVariantBody x σ f d deny sq v = .ok p → seVariantBody σ f d p = .ok w →
    contained (prune v) (prune w) = true

theorem scat_step {f : Nat} (hA : CatS x σ S f) : Scat x σ S (f + 1) := by
  intro ps deny kvs fs es hin hok hd h1 h2
  simp only [Bool.or_eq_true] at hok
  rcases hok with hok | hok
  · exact struct_contained x σ (fun p hp vk a w => hA p.ty (hin p hp) vk a w) hok hd h1 h2
  · exact struct_contained_flat x σ (fun p hp vk a w => hA p.ty (hin p hp) vk a w) hok hd h1 h2

theorem vcat_step {f : Nat} (hA : CatS x σ S f) (hS : Scat x σ S f) : Vcat x σ S (f + 1) := by
  intro d deny sq v p w hin hok hd h1 h2
  cases d with
  | simple =>
    simp only [deVariantBody] at h1
    cases v <;> simp at h1
    subst h1
    simp only [seVariantBody, Except.ok.injEq] at h2; subst h2
    simp [prune, contained, scalarEq]
  | item t =>
    simp only [deVariantBody] at h1
    simp only [seVariantBody] at h2
    simp only [declaredBody] at hd
    exact hA t (hin t (by simp [idsOfD])) v p w hd h1 h2
  | tuple ts =>
    simp only [deVariantBody] at h1
    simp only [declaredBody] at hd
    cases v with
    | arr xs =>
      simp only at h1 hd
      cases hz : zipM (de x σ f) ts xs with
      | error e => rw [hz] at h1; simp at h1
      | ok vs =>
        rw [hz] at h1
        simp only [Except.ok.injEq] at h1; subst h1
        simp only [seVariantBody] at h2
        cases hs : zipSe (se σ f) ts vs with
        | error e => rw [hs] at h2; simp at h2
        | ok js =>
          rw [hs] at h2
          simp only [Except.ok.injEq] at h2; subst h2
          simp only [prune, contained]
          exact zip_contained hz hs hd
            (fun t ht a b c hda h1 h2 => hA t (hin t (by simpa [idsOfD] using ht)) a b c hda h1 h2)
    | _ => simp at h1
  | struct ps =>
    simp only [declaredBody] at hd
    obtain ⟨kvs, rfl⟩ := declaredStruct_obj hd
    simp only [deVariantBody] at h1
    have hds : deStruct x σ f ps deny (.obj kvs) = .ok p := h1
    obtain ⟨fs, rfl⟩ := deStruct_shape x σ hds
    simp only [seVariantBody] at h2
    cases hs : seStruct σ f ps fs with
    | error e => rw [hs] at h2; simp at h2
    | ok es =>
      rw [hs] at h2
      simp only [Except.ok.injEq] at h2; subst h2
      simp only [prune, contained]
      exact hS ps deny kvs fs es
        (fun q hq => hin q.ty (by simp [idsOfD, fieldIds]; exact ⟨q, hq, rfl⟩))
        (by have h' : fieldsOkB σ ps = true := hok
            simp [h']) hd hds hs

theorem cat_step (hcl : closedOkB σ S = true) {f : Nat} (hA : CatS x σ S f) (hS : Scat x σ S f)
    (hV : Vcat x σ S f) : CatS x σ S (f + 1) := by
  intro t ht v xv w hd h1 h2
  have h2o := h2
  cases hg : σ.get t with
  | none => simp [de, hg] at h1
  | some ent =>
    obtain ⟨hok, hch⟩ := closed_get σ S hcl ht hg
    obtain ⟨det, ed, im⟩ := ent
    simp only [de, hg] at h1
    simp only [se, hg] at h2
    simp only [declared, hg] at hd
    cases det with
    | unit =>
      cases v <;> simp at h1; subst h1
      simp at h2; subst h2; simp [prune, contained, scalarEq]
    | boolean =>
      cases v <;> simp at h1; subst h1
      simp at h2; subst h2; simp [prune, contained, scalarEq]
    | string =>
      cases v <;> simp at h1; subst h1
      simp at h2; subst h2; simp [prune, contained, scalarEq]
    | jsonValue =>
      simp at h1; subst h1
      simp at h2; subst h2
      exact contained_prune_self hd
    | float n =>
      -- an integer literal read at a float type comes back as `n.0`: numerically equal
      cases v <;> simp at h1 <;> (subst h1; simp at h2; subst h2; simp [prune, contained, scalarEq])
    | integer n =>
      simp only at h1
      split at h1
      · simp at h1
      · rename_i ty hty
        cases v with
        | int k =>
          simp only at h1
          by_cases hr : ty.lo ≤ k ∧ k ≤ ty.hi
          · rw [if_pos hr] at h1
            simp only [Except.ok.injEq] at h1; subst h1
            simp at h2; subst h2
            simp [prune, contained, scalarEq]
          · rw [if_neg hr] at h1; simp at h1
        | _ => simp at h1
    | native n ps => simp at h1
    | reference t' => simp at h1
    | box t' =>
      simp only at h1 h2 hd
      exact hA t' (hch t' (by simp [childrenOf])) v xv w hd h1 h2
    | option t' =>
      have hrt := hA t' (hch t' (by simp [childrenOf]))
      simp only at h1 h2 hd
      by_cases hv : v = .null
      · -- null ↦ None ↦ null
        subst hv
        simp only [Except.ok.injEq] at h1; subst h1
        rw [se_none_null σ (f + 1) t t' ed im w hg h2o]
        simp [prune, contained, scalarEq]
      · have hd' : declared σ f t' v = true := by
          cases v <;> first | exact absurd rfl hv | exact hd
        have h1' : (match σ.get t' with
            | some ⟨.option _, _, _⟩ => de x σ f t' v
            | _ => match de x σ f t' v with
              | .ok a => (.ok (.some a) : Except E Val)
              | .error e => .error e) = .ok xv := by
          cases v <;> first | exact absurd rfl hv | exact h1
        split at h1'
        · -- nested Option: flattened when rendered
          rename_i t'' ed' im' hg'
          simp only [hg'] at h2
          exact hrt v xv w hd' h1' h2
        · rename_i hnopt
          cases hde : de x σ f t' v with
          | error e => rw [hde] at h1'; simp at h1'
          | ok a =>
            rw [hde] at h1'; simp only [Except.ok.injEq] at h1'; subst h1'
            split at h2
            · rename_i t'' ed' im' hc; exact absurd hc (hnopt t'' ed' im')
            · simp only at h2
              exact hrt v a w hd' hde h2
    | vec t' =>
      have hrt := hA t' (hch t' (by simp [childrenOf]))
      cases v with
      | arr xs =>
        simp only at h1 hd
        cases hm : mapM' (de x σ f t') xs with
        | error e => rw [hm] at h1; simp at h1
        | ok vs =>
          rw [hm] at h1; simp only [Except.ok.injEq] at h1; subst h1
          simp only at h2
          cases hs : mapM' (se σ f t') vs with
          | error e => rw [hs] at h2; simp at h2
          | ok js =>
            rw [hs] at h2; simp only [Except.ok.injEq] at h2; subst h2
            simp only [prune, contained]
            exact mapM'_contained hm hs hd (fun a b c hda h1 h2 => hrt a b c hda h1 h2)
      | _ => simp at h1
    | set t' =>
      have hrt := hA t' (hch t' (by simp [childrenOf]))
      cases v with
      | arr xs =>
        simp only at h1 hd
        cases hm : mapM' (de x σ f t') xs with
        | error e => rw [hm] at h1; simp at h1
        | ok vs =>
          rw [hm] at h1; simp only [Except.ok.injEq] at h1; subst h1
          simp only at h2
          cases hs : mapM' (se σ f t') vs with
          | error e => rw [hs] at h2; simp at h2
          | ok js =>
            rw [hs] at h2; simp only [Except.ok.injEq] at h2; subst h2
            simp only [prune, contained]
            exact mapM'_contained hm hs hd (fun a b c hda h1 h2 => hrt a b c hda h1 h2)
      | _ => simp at h1
    | array t' n =>
      have hrt := hA t' (hch t' (by simp [childrenOf]))
      cases v with
      | arr xs =>
        simp only at h1 hd
        by_cases hl : xs.length = n
        · rw [if_pos hl] at h1
          cases hm : mapM' (de x σ f t') xs with
          | error e => rw [hm] at h1; simp at h1
          | ok vs =>
            rw [hm] at h1; simp only [Except.ok.injEq] at h1; subst h1
            simp only at h2
            cases hs : mapM' (se σ f t') vs with
            | error e => rw [hs] at h2; simp at h2
            | ok js =>
              rw [hs] at h2; simp only [Except.ok.injEq] at h2; subst h2
              simp only [prune, contained]
              exact mapM'_contained hm hs hd (fun a b c hda h1 h2 => hrt a b c hda h1 h2)
        · rw [if_neg hl] at h1; simp at h1
      | _ => simp at h1
    | tuple ts =>
      cases v with
      | arr xs =>
        simp only at h1 hd
        cases hm : zipM (de x σ f) ts xs with
        | error e => rw [hm] at h1; simp at h1
        | ok vs =>
          rw [hm] at h1; simp only [Except.ok.injEq] at h1; subst h1
          simp only at h2
          cases hs : zipSe (se σ f) ts vs with
          | error e => rw [hs] at h2; simp at h2
          | ok js =>
            rw [hs] at h2; simp only [Except.ok.injEq] at h2; subst h2
            simp only [prune, contained]
            exact zip_contained hm hs hd
              (fun t0 ht0 a b c hda h1 h2 =>
                hA t0 (hch t0 (by simpa [childrenOf] using ht0)) a b c hda h1 h2)
      | _ => simp at h1
    | map k vt =>
      have hrt := hA vt (hch vt (by simp [childrenOf]))
      cases v with
      | obj kvs =>
        simp only [Bool.and_eq_true] at h1 hd
        obtain ⟨hnd, hall⟩ := hd
        split at h1
        · rename_i es hm
          simp only [Except.ok.injEq] at h1; subst h1
          simp only at h2
          split at h2
          · rename_i es' hs
            simp only [Except.ok.injEq] at h2; subst h2
            simp only [prune, contained]
            refine map_contained hm hs hnd ?_ ?_ ?_
            · intro kv r hr
              split at hr <;> simp at hr <;> (rw [← hr])
            · intro kv r hr
              split at hr <;> simp at hr
              rw [← hr]
            · intro kv hkv b c hb hc
              have hdkv := (List.all_eq_true.mp hall) kv hkv
              split at hc
              · rename_i j hj
                simp only [Except.ok.injEq] at hc; subst hc
                simp only
                split at hb <;> simp at hb
                · rename_i b0 _ hvb; rw [← hb] at hj; exact hrt kv.2 b0 j hdkv hvb hj
                · rename_i b0 _ hvb; rw [← hb] at hj; exact hrt kv.2 b0 j hdkv hvb hj
              · simp at hc
          · simp at h2
        · simp at h1
      | _ => simp at h1
    | newtype n inner c d =>
      have hrt := hA inner (hch inner (by simp [childrenOf]))
      simp only at h1 h2 hd
      cases hdv : de x σ f inner v with
      | error e => rw [hdv] at h1; simp at h1
      | ok v' =>
        rw [hdv] at h1
        simp only at h1
        -- the constraint check hands the inner value through or rejects
        have hxv : xv = v' := by
          cases c with
          | none => simp only [Except.ok.injEq] at h1; exact h1.symm
          | string mx mn pat =>
            simp only at h1
            cases v' with
            | str s0 =>
              simp only at h1
              split at h1
              · simp only [Except.ok.injEq] at h1; exact h1.symm
              · simp at h1
            | _ => simp at h1
          | enumValues vals =>
            simp only at h1
            split at h1
            · simp at h1
            · simp at h1
            · split at h1
              · simp only [Except.ok.injEq] at h1; exact h1.symm
              · simp at h1
          | denyValues vals =>
            simp only at h1
            split at h1
            · simp at h1
            · simp at h1
            · split at h1
              · simp at h1
              · simp only [Except.ok.injEq] at h1; exact h1.symm
        subst hxv
        exact hrt v xv w hd hdv h2
    | struct n ps deny d =>
      simp only at h1 h2 hd
      obtain ⟨kvs, rfl⟩ := declaredStruct_obj hd
      obtain ⟨fs, rfl⟩ := deStruct_shape x σ h1
      simp only at h2
      cases hs : seStruct σ f ps fs with
      | error e => rw [hs] at h2; simp at h2
      | ok es =>
        rw [hs] at h2
        simp only [Except.ok.injEq] at h2; subst h2
        simp only [prune, contained]
        exact hS ps deny kvs fs es
          (fun q hq => hch q.ty (by simp [childrenOf, fieldIds]; exact ⟨q, hq, rfl⟩))
          (by simpa [entryOkB] using hok) hd h1 hs
    | enum n tag vs deny d bes =>
      simp only [entryOkB, Bool.and_eq_true] at hok
      obtain ⟨⟨hnd, htag⟩, hvs⟩ := hok
      have hvok : ∀ (i : Nat) (vr : Variant), vs[i]? = some vr →
          variantOkB σ tag vr = true ∧ (∀ c ∈ idsOfD vr.details, c ∈ S) := by
        intro i vr hi
        have hm := List.mem_of_getElem? hi
        refine ⟨(List.all_eq_true.mp hvs) vr hm, ?_⟩
        intro c hc
        apply hch c
        simp only [childrenOf, List.mem_flatten, List.mem_map]
        refine ⟨variantIds vr, ⟨vr, hm, rfl⟩, ?_⟩
        cases hd : vr.details <;> simp [idsOfD, variantIds, hd] at hc ⊢ <;> exact hc
      have hdok : ∀ (i : Nat) (vr : Variant), vs[i]? = some vr → detailsOk σ vr.details := by
        intro i vr hi
        have := (hvok i vr hi).1
        unfold variantOkB at this
        unfold detailsOk
        cases hd : vr.details with
        | struct ps => rw [hd] at this; simp only [Bool.and_eq_true] at this; exact this.1
        | _ => trivial
      cases tag with
      | untagged => simp at htag
      | external =>
        simp only at h1 h2 hd
        cases v with
        | str s0 =>
          simp only at h1
          cases hfi : vs.findIdx? (fun v => v.wire == s0) with
          | none => rw [hfi] at h1; simp at h1
          | some i =>
            rw [hfi] at h1
            obtain ⟨vr, hvi, hw⟩ := findIdx_get hfi
            simp only [hvi] at h1
            obtain ⟨raw, ident, det'⟩ := vr
            cases det' <;> simp at h1
            subst h1
            simp only [hvi] at h2
            simp only [Except.ok.injEq] at h2; subst h2
            have : Variant.wire ⟨raw, ident, .simple⟩ = s0 := by simpa using hw
            rw [this]
            simp [prune, contained, scalarEq]
        | obj kvs =>
          cases kvs with
          | nil => simp at h1
          | cons kv rest =>
            obtain ⟨k0, body⟩ := kv
            cases rest with
            | cons _ _ => simp at hd
            | nil =>
              simp only [List.all_nil, Bool.not_true, Bool.false_eq_true, if_false] at h1
              cases hfi : vs.findIdx? (fun v => v.wire == k0) with
              | none => rw [hfi] at h1; simp at h1
              | some i =>
                rw [hfi] at h1
                obtain ⟨vr, hvi, hw⟩ := findIdx_get hfi
                simp only [hvi] at h1
                simp only [variantAt, hfi, hvi] at hd
                cases hb : deVariantBody x σ f vr.details deny true body with
                | error e => rw [hb] at h1; simp at h1
                | ok p =>
                  rw [hb] at h1
                  simp only [Except.ok.injEq] at h1; subst h1
                  simp only [hvi] at h2
                  obtain ⟨hvo, hin⟩ := hvok i vr hvi
                  have hdo := hdok i vr hvi
                  have hwk : vr.wire = k0 := by simpa using hw
                  by_cases hsimple : vr.details = .simple
                  · -- `{"V": null}` for a data-less variant is not wire-shaped
                    obtain ⟨raw, ident, det'⟩ := vr
                    simp only at hsimple; subst hsimple
                    simp at hd
                  · have hd' : declaredBody σ f vr.details body = true := by
                      obtain ⟨raw, ident, det'⟩ := vr
                      cases det' <;> first | exact absurd rfl hsimple | exact hd
                    have h2' : (match seVariantBody σ f vr.details p with
                        | .ok b => (.ok (.obj [(vr.wire, b)]) : Except E Json)
                        | .error e => .error e) = .ok w := by
                      cases hdt : vr.details <;> first | exact absurd hdt hsimple | (rw [hdt] at h2; exact h2)
                    cases hsb : seVariantBody σ f vr.details p with
                    | error e => rw [hsb] at h2'; simp at h2'
                    | ok b =>
                      rw [hsb] at h2'
                      simp only [Except.ok.injEq] at h2'; subst h2'
                      exact contained_single hwk (hV vr.details deny true body p b hin hdo hd' hb hsb)
        | _ => simp at h1
      | internal tg =>
        simp only at h1 h2 hd
        cases v with
        | obj kvs =>
          simp only [Bool.and_eq_true] at h1 hd
          obtain ⟨hndk, hd⟩ := hd
          cases hl : Json.lookup kvs tg with
          | none => rw [hl] at h1; simp at h1
          | some jt =>
            rw [hl] at h1 hd
            cases jt with
            | str s0 =>
              simp only at h1 hd
              cases hfi : vs.findIdx? (fun v => v.wire == s0) with
              | none => rw [hfi] at h1; simp at h1
              | some i =>
                rw [hfi] at h1
                obtain ⟨vr, hvi, hw⟩ := findIdx_get hfi
                simp only [hvi] at h1
                simp only [variantAt, hfi, hvi] at hd
                obtain ⟨hvo, hin⟩ := hvok i vr hvi
                have hdo := hdok i vr hvi
                have hwk : vr.wire = s0 := by simpa using hw
                obtain ⟨raw, ident, det'⟩ := vr
                cases det' with
                | simple =>
                  simp only [Except.ok.injEq] at h1; subst h1
                  simp only [hvi] at h2
                  simp only [Except.ok.injEq] at h2; subst h2
                  simp only [List.isEmpty_iff] at hd
                  refine internal_contained hndk hl hwk ?_
                  rw [hd]; simp [pruneObj, containedObj]
                | struct ps =>
                  simp only at h1 hd
                  cases hds : deStruct x σ f ps deny (.obj (Json.erase kvs tg)) with
                  | error e => rw [hds] at h1; simp at h1
                  | ok p =>
                    rw [hds] at h1
                    simp only [Except.ok.injEq] at h1; subst h1
                    obtain ⟨fs, rfl⟩ := deStruct_shape x σ hds
                    simp only [hvi] at h2
                    cases hs : seStruct σ f ps fs with
                    | error e => rw [hs] at h2; simp at h2
                    | ok es =>
                      rw [hs] at h2
                      simp only [Except.ok.injEq] at h2; subst h2
                      refine internal_contained hndk hl hwk ?_
                      exact hS ps deny _ fs es
                        (fun q hq => hin q.ty (by simp [idsOfD, fieldIds]; exact ⟨q, hq, rfl⟩))
                        (by have h' : fieldsOkB σ ps = true := hdo
                            simp [h']) hd hds hs
                | item t' => simp [variantOkB] at hvo
                | tuple ts => simp [variantOkB] at hvo
            | _ => simp at h1
        | arr xs => simp at h1
        | _ => simp at h1
      | adjacent tg ct =>
        have htc : tg ≠ ct := by simpa using htag
        simp only at h1 h2 hd
        cases v with
        | obj kvs =>
          simp only [Bool.and_eq_true] at h1 hd
          obtain ⟨⟨hndk, hkeys⟩, hd⟩ := hd
          split at h1
          · simp at h1
          · cases hl : Json.lookup kvs tg with
            | none => rw [hl] at h1; simp at h1
            | some jt =>
              rw [hl] at h1 hd
              cases jt with
              | str s0 =>
                simp only at h1 hd
                cases hfi : vs.findIdx? (fun v => v.wire == s0) with
                | none => rw [hfi] at h1; simp at h1
                | some i =>
                  rw [hfi] at h1
                  obtain ⟨vr, hvi, hw⟩ := findIdx_get hfi
                  simp only [hvi] at h1
                  obtain ⟨hvo, hin⟩ := hvok i vr hvi
                  have hdo := hdok i vr hvi
                  have hwk : vr.wire = s0 := by simpa using hw
                  -- the shared tail: a variant with data whose content member is present
                  have hdata : ∀ body, Json.lookup kvs ct = some body →
                      ∀ p, deVariantBody x σ f vr.details deny false body = .ok p →
                      (match seVariantBody σ f vr.details p with
                        | .ok b => (.ok (.obj [(tg, .str vr.wire), (ct, b)]) : Except E Json)
                        | .error e => .error e) = .ok w →
                      contained (prune (.obj kvs)) (prune w) = true := by
                    intro body hlc p hb h2'
                    have hd' : declaredBody σ f vr.details body = true := by
                      rw [hlc] at hd
                      simp only [variantAt, hfi, hvi] at hd
                      exact hd
                    cases hsb : seVariantBody σ f vr.details p with
                    | error e => rw [hsb] at h2'; simp at h2'
                    | ok b =>
                      rw [hsb] at h2'
                      simp only [Except.ok.injEq] at h2'; subst h2'
                      exact adjacent_contained hndk hkeys hl hwk htc hlc
                        (hV vr.details deny false body p b hin hdo hd' hb hsb)
                  obtain ⟨raw, ident, det'⟩ := vr
                  cases det' with
                  | simple =>
                    have hxv : xv = .variant i .unit ∧
                        (Json.lookup kvs ct = none ∨ Json.lookup kvs ct = some .null) := by
                      cases hlc : Json.lookup kvs ct with
                      | none => rw [hlc] at h1; simp at h1; exact ⟨h1.symm, Or.inl rfl⟩
                      | some jc =>
                        rw [hlc] at h1
                        cases jc <;> simp at h1
                        exact ⟨h1.symm, Or.inr rfl⟩
                    obtain ⟨hxv, hlc⟩ := hxv
                    subst hxv
                    simp only [hvi] at h2
                    simp only [Except.ok.injEq] at h2; subst h2
                    exact adjacent_contained_simple hndk hkeys hl hwk hlc
                  | item t' =>
                    cases hlc : Json.lookup kvs ct with
                    | none =>
                      rw [hlc] at h1
                      simp only [variantOkB, Bool.not_eq_true'] at hvo
                      simp [hvo] at h1
                    | some body =>
                      rw [hlc] at h1
                      simp only at h1
                      cases hb : deVariantBody x σ f (.item t') deny false body with
                      | error e => rw [hb] at h1; simp at h1
                      | ok p =>
                        rw [hb] at h1
                        simp only [Except.ok.injEq] at h1; subst h1
                        simp only [hvi] at h2
                        exact hdata body hlc p hb h2
                  | tuple ts =>
                    cases hlc : Json.lookup kvs ct with
                    | none => rw [hlc] at h1; simp at h1
                    | some body =>
                      rw [hlc] at h1
                      simp only at h1
                      cases hb : deVariantBody x σ f (.tuple ts) deny false body with
                      | error e => rw [hb] at h1; simp at h1
                      | ok p =>
                        rw [hb] at h1
                        simp only [Except.ok.injEq] at h1; subst h1
                        simp only [hvi] at h2
                        exact hdata body hlc p hb h2
                  | struct ps =>
                    cases hlc : Json.lookup kvs ct with
                    | none => rw [hlc] at h1; simp at h1
                    | some body =>
                      rw [hlc] at h1
                      simp only at h1
                      cases hb : deVariantBody x σ f (.struct ps) deny false body with
                      | error e => rw [hb] at h1; simp at h1
                      | ok p =>
                        rw [hb] at h1
                        simp only [Except.ok.injEq] at h1; subst h1
                        simp only [hvi] at h2
                        exact hdata body hlc p hb h2
              | _ => simp at h1
        | arr xs => simp at h1
        | _ => simp at h1

/-- the three containment statements, for every fuel -/
theorem rt_contains_all (hcl : closedOkB σ S = true) :
    ∀ (f : Nat), CatS x σ S f ∧ Scat x σ S f ∧ Vcat x σ S f := by
  intro f
  induction f with
  | zero =>
    refine ⟨?_, ?_, ?_⟩
    · intro t _ v a w _ h1; simp [de] at h1
    · intro ps deny kvs fs es _ _ _ h1; simp [deStruct] at h1
    · intro d deny sq v p w _ _ _ h1; simp [deVariantBody] at h1
  | succ f ih =>
    obtain ⟨hA, hS, hV⟩ := ih
    exact ⟨cat_step x σ S hcl hA hS hV, scat_step x σ S hA, vcat_step x σ S hA hS⟩

/-- **C03 (model level): the round trip keeps declared data** — for every type of a reference-closed
    set of well-formed entries and every fuel. -/
theorem rt_contains (x : Ext) (σ : Space) (S : List Id) (hS : closedOkB σ S = true) :
    ∀ f, ∀ t ∈ S, Cat x σ f t :=
  fun f => (rt_contains_all x σ S hS f).1

/-- the statement in the property's words: `v` valid for `T` with only declared members,
    `w = to_value(from_value::<T>(v))` ⇒ `prune(v)` is contained in `prune(w)` -/
theorem roundtrip_contains (hcl : closedOkB σ S = true) {t : Id} (ht : t ∈ S) (f : Nat)
    (v : Json) (a : Val) (w : Json)
    (hd : declared σ f t v = true) (h1 : de x σ f t v = .ok a) (h2 : se σ f t a = .ok w) :
    contained (prune v) (prune w) = true :=
  rt_contains x σ S hcl f t ht v a w hd h1 h2

/-- struct level, for every fuel -/
theorem struct_roundtrip_contains (hcl : closedOkB σ S = true) (f : Nat) {ps : List Field}
    (hin : ∀ p ∈ ps, p.ty ∈ S) (hok : (fieldsOkB σ ps || fieldsOkFlatB σ ps) = true) {deny : Bool}
    {kvs : List (String × Json)} {fs : List (String × Val)} {es : List (String × Json)}
    (hd : declaredStruct σ f ps (.obj kvs) = true)
    (h1 : deStruct x σ f ps deny (.obj kvs) = .ok (.struct fs)) (h2 : seStruct σ f ps fs = .ok es) :
    containedObj (pruneObj kvs) (pruneObj es) = true :=
  (rt_contains_all x σ S hcl f).2.1 ps deny kvs fs es hin hok hd h1 h2

/-- variant-body level, for every fuel -/
theorem variant_roundtrip_contains (hcl : closedOkB σ S = true) (f : Nat) {d : VDetails}
    (hin : ∀ c ∈ idsOfD d, c ∈ S) (hok : detailsOk σ d) {deny sq : Bool} {v : Json} {p : Val} {w : Json}
    (hd : declaredBody σ f d v = true)
    (h1 : deVariantBody x σ f d deny sq v = .ok p) (h2 : seVariantBody σ f d p = .ok w) :
    contained (prune v) (prune w) = true :=
  (rt_contains_all x σ S hcl f).2.2 d deny sq v p w hin hok hd h1 h2

/-! ### non-vacuity

A struct `R { a: String, o: Option<i64> (optional), d: i64 (default 7), x: f64, e: E }` with the externally
tagged `enum E { u, s { p: i64 } }`. In the document the optional member is `null` (pruned from `v`,
skipped in `w`), the member with a default is absent (added in `w`), the float member is written as the
integer literal `5` (comes back as `5.0`), and the enum is a struct variant. -/
def cSpace : Space := { entries := [
  (1, ⟨.struct "R" [⟨"a", .none, .required, 2⟩, ⟨"o", .none, .optional, 3⟩, ⟨"d", .none, .dflt (.int 7), 5⟩,
        ⟨"x", .none, .required, 7⟩, ⟨"e", .none, .required, 6⟩] false none, [], []⟩),
  (2, ⟨.string, [], []⟩),
  (3, ⟨.option 5, [], []⟩),
  (5, ⟨.integer "i64", [], []⟩),
  (6, ⟨.enum "E" .external [⟨"u", "U", .simple⟩, ⟨"s", "S", .struct [⟨"p", .none, .required, 5⟩]⟩] false none [], [], []⟩),
  (7, ⟨.float "f64", [], []⟩)] }

def cExt : Ext := ⟨fun _ _ => true⟩

def cV : Json :=
  .obj [("a", .str "x"), ("o", .null), ("x", .int 5), ("e", .obj [("s", .obj [("p", .int 3)])])]
def cA : Val :=
  .struct [("a", .str "x"), ("o", .none), ("d", .int 7), ("x", .flt 5 0), ("e", .variant 1 (.struct [("p", .int 3)]))]
def cW : Json :=
  .obj [("a", .str "x"), ("d", .int 7), ("x", .flt 5 0), ("e", .obj [("s", .obj [("p", .int 3)])])]

example : closedOkB cSpace [1, 2, 3, 5, 6, 7] = true := by decide
example : declared cSpace 9 1 cV = true := by decide
example : de cExt cSpace 9 1 cV = .ok cA := by rfl
example : se cSpace 9 1 cA = .ok cW := by rfl
/-- what the theorem says for this document, evaluated -/
example : contained (prune cV) (prune cW) = true := by decide
/-- … and obtained from the theorem -/
example : contained (prune cV) (prune cW) = true :=
  roundtrip_contains cExt cSpace [1, 2, 3, 5, 6, 7] (by decide) (t := 1) (by decide) 9 cV cA cW (by decide) (by rfl) (by rfl)
/-- the pruned input: the `null` member is gone; the output has the defaulted member in addition -/
example : prune cV = .obj [("a", .str "x"), ("x", .int 5), ("e", .obj [("s", .obj [("p", .int 3)])])] := by rfl
/-- the float member alone: `5` is contained in `5.0` -/
example : de cExt cSpace 9 7 (.int 5) = .ok (.flt 5 0) ∧ se cSpace 9 7 (.flt 5 0) = .ok (.flt 5 0) ∧
    contained (prune (.int 5)) (prune (.flt 5 0)) = true := ⟨by rfl, by rfl, by decide⟩
/-- a data-less variant of the externally tagged enum -/
example : declared cSpace 9 6 (.str "u") = true ∧ de cExt cSpace 9 6 (.str "u") = .ok (.variant 0 .unit) ∧
    se cSpace 9 6 (.variant 0 .unit) = .ok (.str "u") := ⟨by decide, by rfl, by rfl⟩

/-! ### the hypothesis `declared` is needed -/

/-- remark: an undeclared member (`zz`; the struct does not deny unknown fields) is read and dropped,
    so the input is **not** contained in the output; `declared` is false for that document -/
def cVundeclared : Json := .obj [("a", .str "x"), ("x", .int 5), ("e", .str "u"), ("zz", .int 1)]
example : ∃ a w, de cExt cSpace 9 1 cVundeclared = .ok a ∧ se cSpace 9 1 a = .ok w ∧
    contained (prune cVundeclared) (prune w) = false ∧ declared cSpace 9 1 cVundeclared = false :=
  ⟨.struct [("a", .str "x"), ("o", .none), ("d", .int 7), ("x", .flt 5 0), ("e", .variant 0 .unit)],
   .obj [("a", .str "x"), ("d", .int 7), ("x", .flt 5 0), ("e", .str "u")], by rfl, by rfl, by decide, by decide⟩

/-- remark: serde reads `{"u": null}` as the data-less variant `u` and writes the string `"u"`;
    `prune {"u": null}` = `{}` is not contained in a string. The document is not the wire shape of the
    variant (nor schema-valid: the schema of `u` is `{"enum": ["u"]}`), and `declared` is false for it. -/
example : de cExt cSpace 9 6 (.obj [("u", .null)]) = .ok (.variant 0 .unit) ∧
    se cSpace 9 6 (.variant 0 .unit) = .ok (.str "u") ∧
    contained (prune (.obj [("u", .null)])) (prune (.str "u")) = false ∧
    declared cSpace 9 6 (.obj [("u", .null)]) = false := ⟨by rfl, by rfl, by decide, by decide⟩

end TypifyModel.C03

import TypifyModel.Model.ConvertString
import TypifyModel.Model.Enc
import TypifyModel.Generated.StringFormats
/-! # `convert_string` establishes the relations of C02 and C05 for string schemas without a `format`

The first piece of `convert.rs` inside the model: for every string schema **without `format`** the entry typify makes
enforces exactly the schema's length and pattern constraints — `strEnc` (C05, `Enc.encD`'s string arms) and `strImplied`
(C02, `Conv.convD`'s string arms) both hold, for all keyword values. With a `format` the validation keywords are not
looked at: for a format no arm recognises the constraints are LOST (`convert_string_format_drops`, an observation
outside C05's quantifier: the format is not one of its enforced constructs), and a pattern compiled with `regress` always
sets `uses_regress` (C17's clause for this construct). -/
namespace TypifyModel.C05C
open TypifyModel TypifyModel.ConvertString TypifyModel.Generated TypifyModel.Enc TypifyModel.Conv

variable (patOk : String → Bool)

/-- **no format: the constraints of the schema are the constraints of the type** (both directions) -/
theorem convert_string_exact (s : StrSchema) (hf : s.fmt = none) :
    match (convertString stringFormats stringFormatFallback patOk s).out with
    | .plain => strEnc s.minLen s.maxLen s.pattern none none none = true ∧
                strImplied s.minLen s.maxLen s.pattern none none none = true
    | .constrained mx mn pat =>
      strEnc s.minLen s.maxLen s.pattern mx mn pat = true ∧ strImplied s.minLen s.maxLen s.pattern mx mn pat = true
    | .native _ _ => False
    | .invalidPattern => ∃ p, s.pattern = some p ∧ patOk p = false := by
  obtain ⟨fmt, mn, mx, pat⟩ := s
  simp only at hf; subst hf
  simp only [convertString]
  cases pat with
  | none => cases mn <;> cases mx <;> simp [strEnc, strImplied]
  | some p =>
    by_cases hp : patOk p = true
    · cases mn <;> cases mx <;> simp [strEnc, strImplied, hp]
    · have hp' : patOk p = false := by simpa using hp
      cases mn <;> cases mx <;> simp [hp']

/-- a pattern that typify compiles sets `uses_regress` (the check it emits calls `::regress::Regex`) -/
theorem convert_string_uses_regress (s : StrSchema) (mx mn : Option Nat) (p : String)
    (h : (convertString stringFormats stringFormatFallback patOk s).out = .constrained mx mn (some p)) :
    "regress" ∈ (convertString stringFormats stringFormatFallback patOk s).uses := by
  obtain ⟨fmt, smn, smx, pat⟩ := s
  cases fmt with
  | none =>
    simp only [convertString] at h ⊢
    cases pat with
    | none => cases smn <;> cases smx <;> simp at h
    | some q =>
      by_cases hq : patOk q = true
      · cases smn <;> cases smx <;> simp [hq]
      · have hq' : patOk q = false := by simpa using hq
        cases smn <;> cases smx <;> simp [hq'] at h
  | some f =>
    simp only [convertString] at h
    split at h <;> simp at h

/-- with a `format` the validation keywords are never consulted -/
theorem convert_string_format_ignores_validation (f : String) (a b : StrSchema) (ha : a.fmt = some f) (hb : b.fmt = some f) :
    convertString stringFormats stringFormatFallback patOk a = convertString stringFormats stringFormatFallback patOk b := by
  obtain ⟨_, _, _, _⟩ := a; obtain ⟨_, _, _, _⟩ := b
  simp only at ha hb; subst ha; subst hb
  simp [convertString]

/-- observation: a format no arm recognises loses the schema's pattern and length bounds -/
theorem convert_string_format_drops :
    (convertString stringFormats stringFormatFallback patOk
      { fmt := some "hostname", minLen := none, maxLen := some 5, pattern := some "^[a-z]+$" }).out = .plain := by
  simp [convertString, selectStringFormat]; decide

end TypifyModel.C05C

import TypifyModel.Model.Enc
import TypifyModel.Proofs.C05
import TypifyModel.Proofs.FlattenFindings
import TypifyModel.Proofs.Lemmas.ConvLemmas
/-! # C05 at the level of the schema: what the generated type accepts is valid under the enforced projection

`enc_sound`: for every document `d`, IR `σ`, registration `rid` of the definitions, schema `S`, type `τ`, JSON `j`:
if every definition is enforced by its registered type (`AllEnc`) and `encB d σ rid fc S τ` holds, then
`de τ j = ok v` implies `validE d g S j ≠ some false` for every fuel — the type accepts nothing that violates a
constraint of the kinds C05 lists. Together with C02's `conv_accepts` (valid ⇒ not rejected) this pins the accepted
set between the schema and its enforced projection. `encB` is evaluated on the real (schema, IR dump) pairs by
`./check C05` (translation validation); a conversion that drops a pattern, a length bound, a `required` entry or
`additionalProperties: false` makes it false for that definition. -/
namespace TypifyModel.C05E
open TypifyModel TypifyModel.Serde TypifyModel.Validate TypifyModel.Conv TypifyModel.Enc

/-- "not refuted": `some true`, or no verdict (out of fuel) -/
abbrev NF (r : Option Bool) : Prop := r ≠ some false

theorem and3_NF {a b : Option Bool} (ha : NF a) (hb : NF b) : NF (and3 a b) := by
  cases a with
  | none => simp [and3, NF]
  | some x =>
    cases b with
    | none => simp [and3, NF]
    | some y =>
      cases x <;> cases y <;> simp [and3, NF] at ha hb ⊢

theorem allJ_NF {g : Json → Option Bool} : ∀ {xs : List Json}, (∀ x ∈ xs, NF (g x)) → NF (allJ g xs) := by
  intro xs
  induction xs with
  | nil => intro _; simp [allJ, NF]
  | cons a r ih =>
    intro h
    simp only [allJ]
    exact and3_NF (h a (by simp)) (ih (fun x hx => h x (by simp [hx])))

theorem zipV_NF {g : Schema → Json → Option Bool} :
    ∀ {ss : List Schema} {xs : List Json}, ss.length = xs.length →
      (∀ (n : Nat) s j, ss[n]? = some s → xs[n]? = some j → NF (g s j)) → NF (zipV g ss xs) := by
  intro ss
  induction ss with
  | nil => intro xs hl _; cases xs <;> simp [zipV, NF] at hl ⊢
  | cons s r ih =>
    intro xs hl h
    cases xs with
    | nil => simp at hl
    | cons j js =>
      simp only [zipV]
      exact and3_NF (h 0 s j (by simp) (by simp))
        (ih (by simpa using hl) (fun n s' j' hs hj => h (n + 1) s' j' (by simpa using hs) (by simpa using hj)))

theorem countV_NF {g : Schema → Option Bool} :
    ∀ {ss : List Schema} {s : Schema}, s ∈ ss → NF (g s) → NF ((countV g ss).map (fun n => decide (0 < n))) := by
  intro ss
  induction ss with
  | nil => intro s hs; simp at hs
  | cons a r ih =>
    intro s hs hg
    simp only [countV]
    cases ha : g a with
    | none => simp [NF]
    | some b =>
      cases hr : countV g r with
      | none => simp [NF]
      | some n =>
        simp only [Option.map_some, NF, ne_eq, Option.some.injEq, decide_eq_false_iff_not, Nat.not_lt, Nat.le_zero_eq]
        simp only [List.mem_cons] at hs
        rcases hs with rfl | hs
        · cases b with
          | true => simp
          | false => rw [ha] at hg; exact absurd rfl hg
        · have := ih hs hg
          rw [hr] at this
          simp only [Option.map_some, NF, ne_eq, Option.some.injEq, decide_eq_false_iff_not, Nat.not_lt, Nat.le_zero_eq] at this
          cases b <;> simp <;> omega

theorem zipM_get {g : Id → Json → Except E Val} :
    ∀ {ts : List Id} {xs : List Json} {vs : List Val}, zipM g ts xs = .ok vs →
      ∀ (n : Nat) t j, ts[n]? = some t → xs[n]? = some j → ∃ v, g t j = .ok v := by
  intro ts
  induction ts with
  | nil => intro xs vs h n t j ht; simp at ht
  | cons t r ih =>
    intro xs vs h n t' j' ht hj
    cases xs with
    | nil => simp [zipM] at h
    | cons j js =>
      simp only [zipM] at h
      split at h
      · simp at h
      · rename_i v hv
        split at h
        · simp at h
        · rename_i vs' hvs
          cases n with
          | zero =>
            simp only [List.getElem?_cons_zero, Option.some.injEq] at ht hj
            subst ht; subst hj; exact ⟨v, hv⟩
          | succ m => exact ih hvs m t' j' (by simpa using ht) (by simpa using hj)

theorem zipB_get {g : Schema → Id → Bool} :
    ∀ {ss : List Schema} {ts : List Id}, zipB g ss ts = true →
      ss.length = ts.length ∧ ∀ (n : Nat) s t, ss[n]? = some s → ts[n]? = some t → g s t = true := by
  intro ss
  induction ss with
  | nil => intro ts h; cases ts <;> simp [zipB] at h ⊢
  | cons s r ih =>
    intro ts h
    cases ts with
    | nil => simp [zipB] at h
    | cons t tr =>
      simp only [zipB, Bool.and_eq_true] at h
      obtain ⟨hl, hr⟩ := ih h.2
      refine ⟨by simp [hl], ?_⟩
      intro n s' t' hs ht
      cases n with
      | zero =>
        simp only [List.getElem?_cons_zero, Option.some.injEq] at hs ht
        subst hs; subst ht; exact h.1
      | succ m => exact hr m s' t' (by simpa using hs) (by simpa using ht)

theorem declaredE_NF {f : Schema → Json → Option Bool} {req : List String} {kvs : List (String × Json)} :
    ∀ {l : List (String × Schema)},
      (∀ k s, (k, s) ∈ l → ∀ v, Json.lookup kvs k = some v →
        (v = .null ∧ req.contains k = false) ∨ NF (f s v)) →
      NF (declaredE f req kvs l) := by
  intro l
  induction l with
  | nil => intro _; simp [declaredE, NF]
  | cons a r ih =>
    intro h
    obtain ⟨k, s⟩ := a
    simp only [declaredE]
    refine and3_NF ?_ (ih (fun k' s' hm => h k' s' (by simp [hm])))
    cases hl : Json.lookup kvs k with
    | none => simp [NF]
    | some v =>
      rcases h k s (by simp) v hl with ⟨rfl, hr⟩ | hn
      · have hr' : (k ∈ req) = False := by simpa using hr
        simp [hr', NF]
      · cases v with
        | null => simp only; split <;> first | exact hn | simp [NF]
        | _ => exact hn

theorem de_option_nonnull {x : Serde.Ext} {σ : Space} {fd : Nat} {t t' : Id} {ed : List String} {im : List Impl}
    {w : Json} {a : Val} (hg : σ.get t = some ⟨.option t', ed, im⟩)
    (hno : ∀ t'' ed' im', σ.get t' ≠ some ⟨.option t'', ed', im'⟩) (hw : w ≠ .null)
    (h : de x σ (fd + 1) t w = .ok a) : ∃ v', de x σ fd t' w = .ok v' := by
  cases w with
  | null => exact absurd rfl hw
  | _ =>
    all_goals
      simp only [de, hg] at h
      cases hgt : σ.get t' with
      | none =>
        split at h
        · rename_i v' hv'; exact ⟨v', hv'⟩
        · simp at h
      | some e =>
        obtain ⟨det, ed', im'⟩ := e
        cases det with
        | option t'' => exact absurd hgt (hno _ _ _)
        | _ =>
          all_goals
            split at h
            · rename_i v' hv'; exact ⟨v', hv'⟩
            · simp at h

theorem extraE_NF {f : Schema → Json → Option Bool} {props : List (String × Schema)} {addl : Additional Schema} :
    ∀ {kvs : List (String × Json)},
      (∀ k v, (k, v) ∈ kvs → props.any (fun p => p.1 == k) = false → NF (extraHere f addl v)) →
      NF (extraE f props addl kvs) := by
  intro kvs
  induction kvs with
  | nil => intro _; simp [extraE, NF]
  | cons a r ih =>
    intro h
    obtain ⟨k, v⟩ := a
    simp only [extraE]
    refine and3_NF ?_ (ih (fun k' v' hm => h k' v' (by simp [hm])))
    by_cases hp : props.any (fun p => p.1 == k) = true
    · simp [hp, NF]
    · have hp' : props.any (fun p => p.1 == k) = false := Bool.eq_false_iff.mpr hp
      simp only [hp', Bool.false_eq_true, if_false]
      exact h k v (by simp) hp'

/-- what `fieldsE` says of one member -/
theorem fieldsE_mem {rec : Schema → Id → Bool} {σ : Space} {props : List (String × Schema)} {req : List String} {opn : Bool} :
    ∀ {fields : List Field}, fieldsE rec σ props req opn fields = true → ∀ p ∈ fields,
      (props.find? (fun q => q.1 == p.wire) = none ∧ opn = true) ∨
      ∃ q, props.find? (fun q => q.1 == p.wire) = some q ∧
        (rec q.2 p.ty = true ∨
         ∃ t' ed im, σ.get p.ty = some ⟨.option t', ed, im⟩ ∧ (∀ t'' ed' im', σ.get t' ≠ some ⟨.option t'', ed', im'⟩) ∧
           req.contains p.wire = false ∧ rec q.2 t' = true) := by
  intro fields
  induction fields with
  | nil => intro _ p hp; simp at hp
  | cons a r ih =>
    intro h p hp
    simp only [fieldsE, Bool.and_eq_true] at h
    simp only [List.mem_cons] at hp
    rcases hp with rfl | hp
    · have h1 := h.1
      split at h1
      · rename_i hf
        simp only [Bool.and_eq_true] at h1
        exact Or.inl ⟨hf, h1.1⟩
      · rename_i k s hf
        right
        refine ⟨(k, s), hf, ?_⟩
        simp only [Bool.or_eq_true] at h1
        rcases h1 with h1 | h1
        · exact Or.inl h1
        · right
          split at h1
          · rename_i t' ed im hg
            split at h1
            · simp at h1
            · rename_i hno
              simp only [Bool.and_eq_true, Bool.not_eq_true'] at h1
              exact ⟨t', ed, im, hg, fun t'' ed' im' hc => hno t'' ed' im' hc, h1.1, h1.2⟩
          · simp at h1
    · exact ih h.2 p hp

/-- a member that is present was read by the member's type -/
theorem deStruct_member {x : Serde.Ext} {σ : Space} {fd : Nat} {fields : List Field} {deny : Bool}
    {kvs : List (String × Json)} {v : Val} (hfl : hasFlatten fields = false)
    (h : deStruct x σ (fd + 1) fields deny (.obj kvs) = .ok v) :
    ∀ p ∈ fields, ∀ w, Json.lookup kvs p.wire = some w → ∃ a, de x σ fd p.ty w = .ok a := by
  intro p hp w hw
  simp only [deStruct] at h
  split at h
  · rename_i hc; simp [hfl] at hc
  · split at h
    · simp at h
    · split at h
      · rename_i fs hfs
        obtain ⟨b, hb⟩ := C05.mapM'_mem hfs p hp
        rw [hw] at hb
        simp only at hb
        split at hb
        · rename_i a ha; exact ⟨a, ha⟩
        · simp at hb
      · simp at h

theorem find_mem_key {props : List (String × Schema)} {k : String} {q : String × Schema}
    (h : props.find? (fun q => q.1 == k) = some q) : q ∈ props ∧ q.1 = k := by
  have := List.find?_some h
  exact ⟨List.mem_of_find?_eq_some h, by simpa using this⟩

/-- the step `deStruct` runs for a member that is read by name -/
def nstep (x : Serde.Ext) (σ : Space) (f : Nat) (kvs : List (String × Json)) (p : Field) : Except E (String × Val) :=
  match Json.lookup kvs p.wire with
    | some v => (match de x σ f p.ty v with | .ok a => .ok (p.name, a) | .error e => .error e)
    | none =>
      match p.state with
      | .required => if optionLikeT σ p.ty then .ok (p.name, Val.none) else .error .reject
      | .optional => (match dflt x σ f p.ty with | .ok a => .ok (p.name, a) | .error e => .error e)
      | .dflt dj => (match de x σ f p.ty dj with
          | .ok a => .ok (p.name, a)
          | .error .reject => .error .unsupported
          | .error e => .error e)

theorem nstep_required {x : Serde.Ext} {σ : Space} {f : Nat} {kvs : List (String × Json)} {p : Field} {b : String × Val}
    (hb : nstep x σ f kvs p = .ok b) (hst : p.state = .required) (hopt : optionLikeT σ p.ty = false) :
    (Json.lookup kvs p.wire).isSome = true := by
  unfold nstep at hb
  cases hl : Json.lookup kvs p.wire with
  | some j => rfl
  | none => rw [hl] at hb; simp only [hst] at hb; simp [hopt] at hb

theorem nstep_member {x : Serde.Ext} {σ : Space} {f : Nat} {kvs : List (String × Json)} {p : Field} {b : String × Val}
    (hb : nstep x σ f kvs p = .ok b) {w : Json} (hw : Json.lookup kvs p.wire = some w) : ∃ a, de x σ f p.ty w = .ok a := by
  unfold nstep at hb
  rw [hw] at hb
  simp only at hb
  split at hb
  · rename_i a ha; exact ⟨a, ha⟩
  · simp at hb

/-- every named step of a successful `foldFields` succeeded -/
theorem foldFields_named_ok {named : Field → Except E (String × Val)}
    {flat : Field → List (String × Json) → Except E Val × List (String × Json)} :
    ∀ (ps : List Field) (c : List (String × Json)) (fs : List (String × Val)) (rest : List (String × Json)),
      foldFields named flat ps c = (.ok fs, rest) → ∀ p ∈ ps, p.rename ≠ .flatten → ∃ b, named p = .ok b := by
  intro ps
  induction ps with
  | nil => intro _ _ _ _ p hp; simp at hp
  | cons q ps ih =>
    intro c fs rest h p hp hpf
    simp only [foldFields] at h
    split at h
    · rename_i hq
      cases hfq : flat q c with
      | mk r c1 =>
        rw [hfq] at h
        cases r with
        | error e => simp at h
        | ok v =>
          simp only at h
          cases hrec : foldFields named flat ps c1 with
          | mk r2 c2 =>
            rw [hrec] at h
            cases r2 with
            | error e => simp at h
            | ok rs =>
              simp only [List.mem_cons] at hp
              rcases hp with rfl | hp
              · exact absurd (by simpa using hq) hpf
              · exact ih c1 rs c2 hrec p hp hpf
    · cases hnq : named q with
      | error e => rw [hnq] at h; simp at h
      | ok a =>
        rw [hnq] at h
        simp only at h
        cases hrec : foldFields named flat ps c with
        | mk r2 c2 =>
          rw [hrec] at h
          cases r2 with
          | error e => simp at h
          | ok rs =>
            simp only [List.mem_cons] at hp
            rcases hp with rfl | hp
            · exact ⟨a, hnq⟩
            · exact ih c rs c2 hrec p hp hpf

/-- when no flattened member takes from the buffer, every flattened step of a successful `foldFields` succeeded on the
    buffer it started with -/
theorem foldFields_flat_ok {named : Field → Except E (String × Val)}
    {flat : Field → List (String × Json) → Except E Val × List (String × Json)} :
    ∀ (ps : List Field) (c : List (String × Json)) (fs : List (String × Val)) (rest : List (String × Json)),
      (∀ p ∈ ps, p.rename = .flatten → ∀ c', (flat p c').2 = c') →
      foldFields named flat ps c = (.ok fs, rest) → ∀ p ∈ ps, p.rename = .flatten → ∃ v, (flat p c).1 = .ok v := by
  intro ps
  induction ps with
  | nil => intro _ _ _ _ _ p hp; simp at hp
  | cons q ps ih =>
    intro c fs rest hk h p hp hpf
    have hk' : ∀ p ∈ ps, p.rename = .flatten → ∀ c', (flat p c').2 = c' := fun p hp => hk p (by simp [hp])
    simp only [foldFields] at h
    split at h
    · rename_i hq
      have hqf : q.rename = .flatten := by simpa using hq
      have hkeep := hk q (by simp) hqf c
      cases hfq : flat q c with
      | mk r c1 =>
        rw [hfq] at h hkeep
        simp only at hkeep; subst hkeep
        cases r with
        | error e => simp at h
        | ok v =>
          simp only at h
          cases hrec : foldFields named flat ps c1 with
          | mk r2 c2 =>
            rw [hrec] at h
            cases r2 with
            | error e => simp at h
            | ok rs =>
              simp only [List.mem_cons] at hp
              rcases hp with rfl | hp
              · exact ⟨v, by rw [hfq]⟩
              · exact ih c1 rs c2 hk' hrec p hp hpf
    · rename_i hq
      cases hnq : named q with
      | error e => rw [hnq] at h; simp at h
      | ok a =>
        rw [hnq] at h
        simp only at h
        cases hrec : foldFields named flat ps c with
        | mk r2 c2 =>
          rw [hrec] at h
          cases r2 with
          | error e => simp at h
          | ok rs =>
            simp only [List.mem_cons] at hp
            rcases hp with rfl | hp
            · exact absurd hpf (by simpa using hq)
            · exact ih c rs c2 hk' hrec p hp hpf

/-- the facts about the members read by name (`F`: all members of a plain struct, the non-flattened ones otherwise) -/
theorem struct_points_core {x : Serde.Ext} {vx : Validate.Ext} {d : Doc} {σ : Space} {g : Nat} {rec : Schema → Id → Bool}
    (hrec : ∀ s' t' j' v' fd', rec s' t' = true → de x σ fd' t' j' = .ok v' → NF (validE vx d g s' j'))
    {props : List (String × Schema)} {req : List String} {opn : Bool} {F : List Field}
    (hndp : nodupB (props.map (·.1)) = true)
    (hall : props.all (fun q => F.any (fun p => p.wire == q.1)) = true)
    (hfe : fieldsE rec σ props req opn F = true) (hreq : requiredFields d σ props F req = true)
    {fd : Nat} {kvs : List (String × Json)}
    (hR : ∀ p ∈ F, p.state = .required → optionLikeT σ p.ty = false → (Json.lookup kvs p.wire).isSome = true)
    (hM : ∀ p ∈ F, ∀ w, Json.lookup kvs p.wire = some w → ∃ a, de x σ fd p.ty w = .ok a) :
    requiredE d props kvs req = true ∧
    (∀ k s, (k, s) ∈ props → ∀ w, Json.lookup kvs k = some w →
      (w = .null ∧ req.contains k = false) ∨ NF (validE vx d g s w)) := by
  refine ⟨?_, ?_⟩
  · simp only [requiredE, List.all_eq_true, Bool.or_eq_true]
    intro r hr
    simp only [requiredFields, List.all_eq_true] at hreq
    have h1 := hreq r hr
    have present : ∀ p, F.find? (fun p => p.wire == r) = some p →
        (match p.state with | .required => !optionLikeT σ p.ty | _ => false) = true →
        (Json.lookup kvs r).isSome = true := by
      intro p hff h1
      have hpm : p ∈ F := List.mem_of_find?_eq_some hff
      have hpw : p.wire = r := by simpa using List.find?_some hff
      cases hst : p.state with
      | required =>
        rw [hst] at h1
        simp only [Bool.not_eq_true'] at h1
        have := hR p hpm hst h1
        rw [hpw] at this; exact this
      | optional => rw [hst] at h1; simp at h1
      | dflt dv => rw [hst] at h1; simp at h1
    split at h1
    · rename_i k s p hfp hff
      simp only [Bool.or_eq_true] at h1
      rcases h1 with h1 | h1
      · right; rw [hfp]; exact h1
      · left; exact present p hff h1
    · rename_i p hfp hff
      left; exact present p hff h1
    · simp at h1
  · intro k s hks w hw
    have hfield : ∃ p ∈ F, p.wire = k := by
      have := List.all_eq_true.mp hall (k, s) hks
      simpa using this
    obtain ⟨p, hp, hpw⟩ := hfield
    have hks' : props.find? (fun q => q.1 == k) = some (k, s) := by
      have := nodupB_find_gen (fun (q : String × Schema) => q.1) hndp (k, s) hks
      simpa using this
    rcases fieldsE_mem hfe p hp with ⟨hnone, _⟩ | ⟨q, hq, hcase⟩
    · rw [hpw, hks'] at hnone; exact absurd hnone (by simp)
    rw [hpw, hks'] at hq
    simp only [Option.some.injEq] at hq; subst hq
    obtain ⟨a, ha⟩ := hM p hp w (by rw [hpw]; exact hw)
    rcases hcase with hcase | ⟨t', ed, im, hg, hno, hnr, hrt⟩
    · exact Or.inr (hrec s p.ty w a fd hcase ha)
    · rw [hpw] at hnr
      by_cases hwn : w = .null
      · exact Or.inl ⟨hwn, hnr⟩
      · right
        cases fd with
        | zero => simp [de] at ha
        | succ fd' =>
          obtain ⟨v', hv'⟩ := de_option_nonnull hg hno hwn ha
          exact hrec s t' w v' fd' hrt hv'

/-- the three facts about an object read by a struct (or struct variant), pointwise -/
theorem struct_points {x : Serde.Ext} {vx : Validate.Ext} {d : Doc} {σ : Space} {g : Nat} {rec : Schema → Id → Bool}
    (hrec : ∀ s' t' j' v' fd', rec s' t' = true → de x σ fd' t' j' = .ok v' → NF (validE vx d g s' j'))
    {props : List (String × Schema)} {req : List String} {addl : Additional Schema} {fields : List Field} {deny : Bool}
    (he : structE rec d σ props req addl fields deny = true)
    {fd : Nat} {kvs : List (String × Json)} {v : Val} (hde : deStruct x σ (fd + 1) fields deny (.obj kvs) = .ok v) :
    requiredE d props kvs req = true ∧
    (∀ k s, (k, s) ∈ props → ∀ w, Json.lookup kvs k = some w →
      (w = .null ∧ req.contains k = false) ∨ NF (validE vx d g s w)) ∧
    (∀ k w, (k, w) ∈ kvs → props.any (fun p => p.1 == k) = false → NF (extraHere (validE vx d g) addl w)) := by
  simp only [structE, Bool.or_eq_true] at he
  rcases he with he | he
  · -- no flattened member
    simp only [structPlainE, Bool.and_eq_true, Bool.not_eq_true'] at he
    obtain ⟨⟨⟨⟨⟨⟨hnf, hndf⟩, hndp⟩, haddl⟩, hall⟩, hfe⟩, hreq⟩ := he
    obtain ⟨hR, hD⟩ := C05.struct_object_enforced x σ fd fields deny kvs v hnf hde
    obtain ⟨h1, h2⟩ := struct_points_core hrec hndp hall hfe hreq (fd := fd) (kvs := kvs)
      (fun p hp hst hopt => hR p hp (by rw [hst]) hopt) (deStruct_member hnf hde)
    refine ⟨h1, h2, ?_⟩
    intro k w hkw hnot
    cases addl with
    | open_ => simp [extraHere, NF]
    | schema sv => simp at haddl
    | closed =>
      simp only at haddl
      obtain ⟨p, hp, hpw⟩ := hD haddl (k, w) hkw
      rcases fieldsE_mem hfe p hp with ⟨_, hopn⟩ | ⟨q, hq, _⟩
      · exact absurd hopn (by simp)
      obtain ⟨hqm, hqk⟩ := find_mem_key hq
      have : props.any (fun p => p.1 == k) = true := by
        simp only [List.any_eq_true]
        exact ⟨q, hqm, by simp [hqk, hpw]⟩
      rw [this] at hnot; exact absurd hnot (by simp)
  · -- `additionalProperties: <schema>`: named members plus one flattened map
    simp only [structFlatE, Bool.and_eq_true] at he
    obtain ⟨⟨⟨⟨⟨haddl, hndf⟩, hndp⟩, hall⟩, hfe⟩, hreq⟩ := he
    cases addl with
    | open_ => simp at haddl
    | closed => simp at haddl
    | schema sa =>
      simp only at haddl
      split at haddl
      · rename_i e hfe'
        split at haddl
        · rename_i k vt ed' im' hge
          simp only [Bool.and_eq_true] at haddl
          obtain ⟨hk, hsa⟩ := haddl
          split at hk
          · rename_i edk imk hgk
            have hemem : e ∈ fields.filter (fun p => p.rename == .flatten) := by rw [hfe']; simp
            simp only [List.mem_filter] at hemem
            have hefl : hasFlatten fields = true := List.any_eq_true.mpr ⟨e, hemem.1, hemem.2⟩
            simp only [deStruct, hefl, if_true] at hde
            split at hde
            · simp at hde
            · rename_i fs rest hfold
              have hfold' : foldFields (nstep x σ fd kvs) (fun (p : Field) c => deFlat x σ fd p.ty c) fields
                  (bufferOf fields kvs) = (.ok fs, rest) := hfold
              have hnamed : ∀ p ∈ Conv.namedOf fields, ∃ b, nstep x σ fd kvs p = .ok b := by
                intro p hp
                simp only [Conv.namedOf, List.mem_filter, bne_iff_ne, ne_eq] at hp
                exact foldFields_named_ok fields _ fs rest hfold' p hp.1 hp.2
              obtain ⟨h1, h2⟩ := struct_points_core hrec hndp hall hfe hreq (fd := fd) (kvs := kvs)
                (fun p hp hst hopt => by obtain ⟨b, hb⟩ := hnamed p hp; exact nstep_required hb hst hopt)
                (fun p hp w hw => by obtain ⟨b, hb⟩ := hnamed p hp; exact nstep_member hb hw)
              refine ⟨h1, h2, ?_⟩
              intro key w hkw hnot
              simp only [extraHere]
              -- the member is in the buffer: no named member claims it
              have hbuf : (key, w) ∈ bufferOf fields kvs := by
                simp only [bufferOf, List.mem_filter, Bool.not_eq_true', List.any_eq_false, Bool.and_eq_true,
                  bne_iff_ne, ne_eq, beq_iff_eq, not_and]
                refine ⟨hkw, ?_⟩
                intro p hp hpf hpw
                have hpn : p ∈ Conv.namedOf fields := by
                  simp only [Conv.namedOf, List.mem_filter, bne_iff_ne, ne_eq]; exact ⟨hp, hpf⟩
                rcases fieldsE_mem hfe p hpn with ⟨_, hopn⟩ | ⟨q, hq, _⟩
                · exact absurd hopn (by simp)
                · obtain ⟨hqm, hqk⟩ := find_mem_key hq
                  have : props.any (fun p => p.1 == key) = true := by
                    simp only [List.any_eq_true]
                    exact ⟨q, hqm, by simp [hqk, hpw]⟩
                  rw [this] at hnot; exact absurd hnot (by simp)
              -- the flattened map read it
              have hkeep : ∀ p ∈ fields, p.rename = .flatten → ∀ c', ((fun (p : Field) c => deFlat x σ fd p.ty c) p c').2 = c' := by
                intro p hp hpf c'
                have hpe : p = e := by
                  have : p ∈ fields.filter (fun p => p.rename == .flatten) := by
                    simp only [List.mem_filter]; exact ⟨hp, by simp [hpf]⟩
                  rw [hfe'] at this; simpa using this
                subst hpe
                exact Flatten.flat_map_keeps x σ hge fd c'
              obtain ⟨vm, hvm⟩ := foldFields_flat_ok fields _ fs rest hkeep hfold' e hemem.1 (by simpa using hemem.2)
              cases fd with
              | zero => simp [deFlat] at hvm
              | succ fd'' =>
                rw [deFlat_map_eq x σ hge] at hvm
                simp only [de, hge] at hvm
                split at hvm
                · rename_i es hes
                  obtain ⟨b, hb⟩ := C05.mapM'_mem hes (key, w) hbuf
                  simp only at hb
                  cases hvw : de x σ fd'' vt w with
                  | ok vv => exact hrec sa vt w vv fd'' hsa hvw
                  | error e' =>
                    rw [hvw] at hb
                    split at hb <;> simp_all
                · simp at hvm
          · simp at hk
        · simp at haddl
      · simp at haddl

/-- **objects**: required members, closed objects, and the members' own schemas -/
theorem struct_sound {x : Serde.Ext} {vx : Validate.Ext} {d : Doc} {σ : Space} {g : Nat} {rec : Schema → Id → Bool}
    (hrec : ∀ s' t' j' v' fd', rec s' t' = true → de x σ fd' t' j' = .ok v' → NF (validE vx d g s' j'))
    {props : List (String × Schema)} {req : List String} {addl : Additional Schema} {fields : List Field} {deny : Bool}
    (he : structE rec d σ props req addl fields deny = true)
    {fd : Nat} {j : Json} {v : Val} (hde : deStruct x σ (fd + 1) fields deny j = .ok v) :
    NF (validE vx d (g + 1) (.object props req addl) j) := by
  cases j with
  | obj kvs =>
    obtain ⟨hR, hD, hX⟩ := struct_points hrec he hde
    simp only [validE]
    exact and3_NF (by simp [hR, NF]) (and3_NF (declaredE_NF hD) (extraE_NF hX))
  | arr xs => simp [validE, NF]
  | null => simp [deStruct] at hde; try (split at hde <;> simp at hde)
  | bool b => simp [deStruct] at hde; try (split at hde <;> simp at hde)
  | int n => simp [deStruct] at hde; try (split at hde <;> simp at hde)
  | flt m e => simp [deStruct] at hde; try (split at hde <;> simp at hde)
  | str t => simp [deStruct] at hde; try (split at hde <;> simp at hde)

theorem strEnc_sound {x : Serde.Ext} {vx : Validate.Ext} (hreg : ∀ p s, x.regex p s = vx.regex p s)
    {smn smx : Option Nat} {spat : Option String} {tmx tmn : Option Nat} {tpat : Option String} {s : String} :
    strEnc smn smx spat tmx tmn tpat = true → checkString x tmx tmn tpat s = true →
    ((match smn with | some m => decide (m ≤ strLen s) | none => true) &&
     (match smx with | some m => decide (strLen s ≤ m) | none => true) &&
     (match spat with | some p => vx.regex p s | none => true)) = true := by
  intro he hc
  simp only [strEnc, Bool.and_eq_true] at he
  simp only [checkString, Bool.and_eq_true, charCount] at hc
  obtain ⟨⟨h1, h2⟩, h3⟩ := he
  obtain ⟨⟨c1, c2⟩, c3⟩ := hc
  simp only [Bool.and_eq_true, strLen]
  refine ⟨⟨?_, ?_⟩, ?_⟩
  · cases smn with
    | none => rfl
    | some m =>
      cases tmn with
      | none => simp only [decide_eq_true_eq] at h2; subst h2; simp
      | some t =>
        have h2' := of_decide_eq_true h2
        have c2' := of_decide_eq_true c2
        exact decide_eq_true (by omega)
  · cases smx with
    | none => rfl
    | some m =>
      cases tmx with
      | none => simp at h1
      | some t =>
        have h1' := of_decide_eq_true h1
        have c1' := of_decide_eq_true c1
        exact decide_eq_true (by omega)
  · cases spat with
    | none => rfl
    | some p =>
      cases tpat with
      | none => simp at h3
      | some q =>
        simp only [beq_iff_eq] at h3; subst h3
        simp only at c3 ⊢
        rw [← hreg]; exact c3

theorem mapM'_de_mem {x : Serde.Ext} {σ : Space} {fd : Nat} {t : Id} {xs : List Json} {vs : List Val}
    (h : mapM' (de x σ fd t) xs = .ok vs) : ∀ j ∈ xs, ∃ v, de x σ fd t j = .ok v :=
  fun j hj => C05.mapM'_mem h j hj

theorem de_option_cases {x : Serde.Ext} {σ : Space} {fd : Nat} {t t' : Id} {ed : List String} {im : List Impl}
    {w : Json} {a : Val} (hg : σ.get t = some ⟨.option t', ed, im⟩)
    (h : de x σ (fd + 1) t w = .ok a) : w = .null ∨ ∃ v', de x σ fd t' w = .ok v' := by
  by_cases hw : w = .null
  · exact Or.inl hw
  · right
    by_cases hno : ∃ t'' ed' im', σ.get t' = some ⟨.option t'', ed', im'⟩
    · obtain ⟨t'', ed', im', hgt⟩ := hno
      cases w with
      | null => exact absurd rfl hw
      | _ => all_goals (simp only [de, hg, hgt] at h; exact ⟨a, h⟩)
    · exact de_option_nonnull hg (fun t'' ed' im' hc => hno ⟨t'', ed', im', hc⟩) hw h

theorem validE_null_null {vx : Validate.Ext} {d : Doc} (g : Nat) : NF (validE vx d g .null .null) := by
  cases g <;> simp [validE, NF]

theorem option_sound {x : Serde.Ext} {vx : Validate.Ext} {d : Doc} {σ : Space} {g : Nat} {rec : Schema → Id → Bool}
    (hrec : ∀ s' t' j' v' fd', rec s' t' = true → de x σ fd' t' j' = .ok v' → NF (validE vx d g s' j'))
    {s' : Schema} {t t' : Id} {ed : List String} {im : List Impl} (hg : σ.get t = some ⟨.option t', ed, im⟩)
    (he : rec s' t' = true) {fd : Nat} {j : Json} {v : Val} (hde : de x σ (fd + 1) t j = .ok v)
    (ss : List Schema) (hs : s' ∈ ss) (hn : Schema.null ∈ ss) :
    NF ((countV (fun s'' => validE vx d g s'' j) ss).map (fun n => decide (0 < n))) := by
  rcases de_option_cases hg hde with rfl | ⟨v', hv'⟩
  · exact countV_NF hn (validE_null_null g)
  · exact countV_NF hs (hrec s' t' j v' fd he hv')

theorem admitsNull_valid {vx : Validate.Ext} {d : Doc} :
    ∀ (n : Nat) (s : Schema), admitsNull d n s = true → ∀ g, NF (validE vx d g s .null) := by
  intro n
  induction n with
  | zero => intro s h; simp [admitsNull] at h
  | succ n ih =>
    intro s h g
    cases g with
    | zero => simp [validE, NF]
    | succ g =>
      cases s with
      | any => simp [validE, NF]
      | null => simp [validE, NF]
      | enumVals vs =>
        simp only [admitsNull] at h
        simp [validE, NF, h]
      | ref k =>
        simp only [admitsNull] at h
        simp only [validE]
        cases hg : d.get k with
        | none => rw [hg] at h; simp at h
        | some s' => rw [hg] at h; exact ih s' h g
      | oneOf ss =>
        simp only [admitsNull, List.any_eq_true] at h
        obtain ⟨s', hs', ha⟩ := h
        simp only [validE]
        exact countV_NF hs' (ih s' ha g)
      | anyOf ss =>
        simp only [admitsNull, List.any_eq_true] at h
        obtain ⟨s', hs', ha⟩ := h
        simp only [validE]
        exact countV_NF hs' (ih s' ha g)
      | _ => all_goals simp [admitsNull] at h

/-- the induction hypothesis at every validity fuel up to `g` -/
def HR (x : Serde.Ext) (vx : Validate.Ext) (d : Doc) (σ : Space) (rec : Schema → Id → Bool) (g : Nat) : Prop :=
  ∀ g', g' ≤ g → ∀ s' t' j' v' fd', rec s' t' = true → de x σ fd' t' j' = .ok v' → NF (validE vx d g' s' j')

theorem tuple_sound {x : Serde.Ext} {vx : Validate.Ext} {d : Doc} {σ : Space} {g : Nat} {rec : Schema → Id → Bool}
    (hrec : ∀ s' t' j' v' fd', rec s' t' = true → de x σ fd' t' j' = .ok v' → NF (validE vx d g s' j'))
    {items : List Schema} {ts : List Id} (he : zipB rec items ts = true) {fd : Nat} {xs : List Json} {vs : List Val}
    (hvs : zipM (de x σ fd) ts xs = .ok vs) : NF (zipV (validE vx d g) items xs) := by
  obtain ⟨hl, hz⟩ := zipB_get he
  have hlen := C05.zipM_length hvs
  refine zipV_NF (by omega) ?_
  intro n s' j' hs hj
  have hn : n < ts.length := by
    have := (List.getElem?_eq_some_iff.mp hs).1; omega
  have ht : ts[n]? = some ts[n] := List.getElem?_eq_getElem hn
  obtain ⟨v', hv'⟩ := zipM_get hvs n ts[n] j' ht hj
  exact hrec s' ts[n] j' v' fd (hz n s' ts[n] hs ht) hv'

/-- the payload of a variant, at any validity fuel `n ≤ g` -/
theorem variantE_sound {x : Serde.Ext} {vx : Validate.Ext} {d : Doc} {σ : Space} {g : Nat} {rec : Schema → Id → Bool}
    (hr : HR x vx d σ rec g) {deny seqOk : Bool} {s : Schema} {dt : VDetails}
    (he : variantE rec (structE rec d σ) deny s dt = true)
    {fd : Nat} {j : Json} {v : Val} (hde : deVariantBody x σ (fd + 1) dt deny seqOk j = .ok v)
    (n : Nat) (hn : n ≤ g) : NF (validE vx d n s j) := by
  cases n with
  | zero => simp [validE, NF]
  | succ m =>
    have hm : ∀ s' t' j' v' fd', rec s' t' = true → de x σ fd' t' j' = .ok v' → NF (validE vx d m s' j') :=
      hr m (by omega)
    unfold variantE at he
    split at he
    · -- data-less variant / null
      simp only [deVariantBody] at hde
      cases j <;> simp [validE, NF] at hde ⊢
    · -- item
      rename_i t
      simp only [deVariantBody] at hde
      exact hr (m + 1) hn s t j v fd he hde
    · -- tuple
      rename_i ts items
      simp only [deVariantBody] at hde
      cases j with
      | arr xs =>
        simp only at hde
        split at hde
        · rename_i vs hvs
          simp only [validE]
          exact tuple_sound hm he hvs
        · simp at hde
      | _ => all_goals simp at hde
    · -- struct
      rename_i ps props req addl
      simp only [deVariantBody] at hde
      have hde' : deStruct x σ fd ps deny j = .ok v := by
        cases seqOk <;> cases j <;> simp_all
      cases fd with
      | zero => simp [deStruct] at hde'
      | succ fd' => exact struct_sound hm he hde'
    · simp at he

theorem firstOk_ok {α : Type} {F : α → Nat → Except E Val} :
    ∀ {l : List α} {k : Nat} {r : Val}, firstOk F l k = .ok r → ∃ n a, l[n]? = some a ∧ F a (k + n) = .ok r := by
  intro l
  induction l with
  | nil => intro k r h; simp [firstOk] at h
  | cons a rest ih =>
    intro k r h
    simp only [firstOk] at h
    split at h
    · rename_i v hv
      simp only [Except.ok.injEq] at h; subst h
      exact ⟨0, a, by simp, by simpa using hv⟩
    · obtain ⟨n, b, hb, hF⟩ := ih h
      exact ⟨n + 1, b, by simpa using hb, by rw [← hF]; congr 1; omega⟩
    · simp at h

theorem untaggedE_get {rec : Schema → Id → Bool} {d : Doc} {σ : Space} {deny : Bool} :
    ∀ {ss : List Schema} {vs : List Variant}, untaggedE rec d σ deny ss vs = true →
      ∀ (n : Nat) (v : Variant), vs[n]? = some v →
        ∃ s, ss[n]? = some s ∧ variantE rec (structE rec d σ) deny s v.details = true := by
  intro ss
  induction ss with
  | nil => intro vs h n v hv; cases vs <;> simp [untaggedE] at h hv
  | cons s rest ih =>
    intro vs h n v hv
    cases vs with
    | nil => simp at hv
    | cons w ws =>
      simp only [untaggedE, Bool.and_eq_true] at h
      cases n with
      | zero =>
        simp only [List.getElem?_cons_zero, Option.some.injEq] at hv; subst hv
        exact ⟨s, by simp, h.1⟩
      | succ m =>
        obtain ⟨s', hs', he'⟩ := ih h.2 m v (by simpa using hv)
        exact ⟨s', by simpa using hs', he'⟩

/-- an externally tagged union: the accepted document is valid for the branch that stands for the variant read -/
theorem external_sound {x : Serde.Ext} {vx : Validate.Ext} {d : Doc} {σ : Space} {g : Nat} {rec : Schema → Id → Bool}
    (hr : HR x vx d σ rec g) {ss : List Schema} {nm : String} {variants : List Variant} {deny : Bool}
    {dv : Option Json} {bes : List Bespoke} {t : Id} {ed : List String} {im : List Impl}
    (hget : σ.get t = some ⟨.enum nm .external variants deny dv bes, ed, im⟩)
    (he : variants.all (fun vr => ss.any (extBranchE rec d σ deny vr)) = true)
    {fd : Nat} {j : Json} {v : Val} (hde : de x σ (fd + 1) t j = .ok v) :
    NF ((countV (fun s' => validE vx d g s' j) ss).map (fun n => decide (0 < n))) := by
  simp only [List.all_eq_true, List.any_eq_true] at he
  simp only [de, hget] at hde
  -- the variant that was read, and its branch
  have key : ∀ (i : Nat) (hlt : i < variants.length), ∃ s ∈ ss, extBranchE rec d σ deny variants[i] s = true :=
    fun i hlt => he variants[i] (List.getElem_mem hlt)
  cases g with
  | zero =>
    -- no fuel for the branches: no verdict
    cases ss with
    | nil =>
      exfalso
      cases j with
      | str w =>
        simp only at hde
        split at hde
        · simp at hde
        · rename_i i hi
          obtain ⟨s, hs, _⟩ := key i (List.findIdx?_eq_some_iff_getElem.mp hi).1
          simp at hs
      | obj kvs =>
        cases kvs with
        | nil => simp at hde
        | cons kv rest =>
          obtain ⟨k, body⟩ := kv
          simp only at hde
          split at hde
          · simp at hde
          · split at hde
            · simp at hde
            · rename_i i hi
              obtain ⟨s, hs, _⟩ := key i (List.findIdx?_eq_some_iff_getElem.mp hi).1
              simp at hs
      | _ => all_goals simp at hde
    | cons s0 rest => simp [countV, validE, NF]
  | succ g' =>
    cases j with
    | str w =>
      simp only at hde
      split at hde
      · simp at hde
      · rename_i i hi
        have hlt := (List.findIdx?_eq_some_iff_getElem.mp hi).1
        have hp := (List.findIdx?_eq_some_iff_getElem.mp hi).2.1
        have hw : variants[i].wire = w := by simpa using hp
        obtain ⟨s, hs, hb⟩ := key i hlt
        rw [List.getElem?_eq_getElem hlt] at hde
        -- the string form is read for a data-less variant only
        have hsimple : isSimple variants[i] = true := by
          cases hd : variants[i].details with
          | simple => simp [isSimple, hd]
          | _ => all_goals (rcases hvi : variants[i] with ⟨r, idn, dt⟩; rw [hvi] at hd hde; simp only at hd; subst hd; simp at hde)
        refine countV_NF hs ?_
        unfold extBranchE at hb
        split at hb
        · rename_i vs
          simp only [Bool.and_eq_true] at hb
          have hm := hb.2
          rw [hw] at hm
          simp only [validE, NF, ne_eq, Option.some.injEq, Bool.or_eq_false_iff, not_and]
          intro hc; rw [hm] at hc; exact absurd hc (by simp)
        · simp [hsimple] at hb
        · simp at hb
    | obj kvs =>
      cases kvs with
      | nil => simp at hde
      | cons kv rest =>
        obtain ⟨k, body⟩ := kv
        simp only at hde
        split at hde
        · simp at hde
        · rename_i hall
          have hall' : rest.all (fun kv => kv.1 == k) = true := by simpa using hall
          split at hde
          · simp at hde
          · rename_i i hi
            have hlt := (List.findIdx?_eq_some_iff_getElem.mp hi).1
            have hp := (List.findIdx?_eq_some_iff_getElem.mp hi).2.1
            have hw : variants[i].wire = k := by simpa using hp
            obtain ⟨s, hs, hb⟩ := key i hlt
            rw [List.getElem?_eq_getElem hlt] at hde
            simp only at hde
            split at hde
            · rename_i p hp'
              refine countV_NF hs ?_
              unfold extBranchE at hb
              split at hb
              · -- a data-less variant in its map form
                rename_i vs
                simp only [Bool.and_eq_true] at hb
                have hm := hb.2
                rw [hw] at hm
                have hbody : body = .null := by
                  cases hdv : variants[i].details with
                  | simple =>
                    rw [hdv] at hp'
                    cases fd with
                    | zero => simp [deVariantBody] at hp'
                    | succ fd' =>
                      simp only [deVariantBody] at hp'
                      cases body <;> simp at hp' ⊢
                  | _ => all_goals (have := hb.1; simp [isSimple, hdv] at this)
                subst hbody
                simp only [validE, NF, ne_eq, Option.some.injEq, Bool.or_eq_false_iff, not_and]
                intro _
                simp [hall', hm]
              · -- `{wire: payload}`
                rename_i k0 sk k0' addl
                simp only [Bool.and_eq_true, beq_iff_eq] at hb
                obtain ⟨⟨⟨_, hk0⟩, hk0'⟩, hve⟩ := hb
                rw [hw] at hk0 hk0'
                subst hk0; subst hk0'
                cases fd with
                | zero => simp [deVariantBody] at hp'
                | succ fd' =>
                  have hsk := variantE_sound hr hve hp' g' (by omega)
                  simp only [validE]
                  refine and3_NF ?_ (and3_NF ?_ ?_)
                  · simp [requiredE, Json.lookup, NF]
                  · apply declaredE_NF
                    intro k1 s1 hks w hwl
                    simp only [List.mem_singleton, Prod.mk.injEq] at hks
                    obtain ⟨rfl, rfl⟩ := hks
                    simp only [Json.lookup, if_true, Option.some.injEq] at hwl
                    subst hwl
                    exact Or.inr hsk
                  · apply extraE_NF
                    intro k1 w1 hkw hnot
                    exfalso
                    simp only [List.mem_cons] at hkw
                    rcases hkw with hkw | hkw
                    · simp only [Prod.mk.injEq] at hkw
                      rw [hkw.1] at hnot; simp at hnot
                    · have := List.all_eq_true.mp hall' (k1, w1) hkw
                      simp only [beq_iff_eq] at this
                      rw [this] at hnot; simp at hnot
              · simp at hb
            · simp at hde
    | _ => all_goals simp at hde

/-- an untagged union: the accepted document is valid for the branch of the first variant that reads it -/
theorem untagged_sound {x : Serde.Ext} {vx : Validate.Ext} {d : Doc} {σ : Space} {g : Nat} {rec : Schema → Id → Bool}
    (hr : HR x vx d σ rec g) {ss : List Schema} {nm : String} {variants : List Variant} {deny : Bool}
    {dv : Option Json} {bes : List Bespoke} {t : Id} {ed : List String} {im : List Impl}
    (hget : σ.get t = some ⟨.enum nm .untagged variants deny dv bes, ed, im⟩)
    (he : untaggedE rec d σ deny ss variants = true)
    {fd : Nat} {j : Json} {v : Val} (hde : de x σ (fd + 1) t j = .ok v) :
    NF ((countV (fun s' => validE vx d g s' j) ss).map (fun n => decide (0 < n))) := by
  simp only [de, hget] at hde
  obtain ⟨n, a, ha, hF⟩ := firstOk_ok hde
  split at hF
  · rename_i p hp
    obtain ⟨s, hs, hve⟩ := untaggedE_get he n a ha
    have hsm : s ∈ ss := List.mem_of_getElem? hs
    cases fd with
    | zero => simp [deVariantBody] at hp
    | succ fd' => exact countV_NF hsm (variantE_sound hr hve hp g (Nat.le_refl g))
  · simp at hF

theorem tag_elem {vx : Validate.Ext} {d : Doc} (w : String) (n : Nat) :
    NF (validE vx d n (.enumVals [.str w]) (.str w)) := by
  cases n with
  | zero => simp [validE, NF]
  | succ m =>
    have : (Json.str w == Json.str w) = true := by simp [BEq.beq, Json.beq]
    simp [validE, NF, this]

theorem find_enum_tag {props : List (String × Schema)} {tg : String} {q : String × Schema}
    (hnd : nodupB (props.map (·.1)) = true) (hf : props.find? (fun p => p.1 == tg) = some q) :
    ∀ k s, (k, s) ∈ props → k = tg → (k, s) = q := by
  intro k s hks hk
  have := nodupB_find_gen (fun (q : String × Schema) => q.1) hnd (k, s) hks
  simp only [hk] at this
  rw [hf] at this
  simp only [Option.some.injEq] at this
  rw [this, hk]

theorem any_filter_ne {props : List (String × Schema)} {tg k : String} (hne : k ≠ tg) :
    (props.filter (fun p => p.1 != tg)).any (fun p => p.1 == k) = props.any (fun p => p.1 == k) := by
  induction props with
  | nil => rfl
  | cons a r ih =>
    simp only [List.filter]
    by_cases ha : a.1 = tg
    · have h1 : (a.1 != tg) = false := by simp [ha]
      have h2 : (a.1 == k) = false := by
        simp only [beq_eq_false_iff_ne, ne_eq]; intro h; exact hne (h ▸ ha)
      simp only [h1, List.any_cons, h2, Bool.false_or]
      exact ih
    · have h1 : (a.1 != tg) = true := by simp [ha]
      simp only [h1, List.any_cons, ih]

/-- an internally tagged union -/
theorem internal_sound {x : Serde.Ext} {vx : Validate.Ext} {d : Doc} {σ : Space} {g : Nat} {rec : Schema → Id → Bool}
    (hr : HR x vx d σ rec g) {ss : List Schema} {nm tg : String} {variants : List Variant} {deny : Bool}
    {dv : Option Json} {bes : List Bespoke} {t : Id} {ed : List String} {im : List Impl}
    (hget : σ.get t = some ⟨.enum nm (.internal tg) variants deny dv bes, ed, im⟩)
    (he : variants.all (fun vr => ss.any (intBranchE rec d σ deny tg vr)) = true)
    {fd : Nat} {j : Json} {v : Val} (hde : de x σ (fd + 1) t j = .ok v) :
    NF ((countV (fun s' => validE vx d g s' j) ss).map (fun n => decide (0 < n))) := by
  simp only [List.all_eq_true, List.any_eq_true] at he
  simp only [de, hget] at hde
  cases j with
  | obj kvs =>
    simp only at hde
    split at hde
    · rename_i s0 hlk
      split at hde
      · simp at hde
      · rename_i i hi
        have hlt := (List.findIdx?_eq_some_iff_getElem.mp hi).1
        have hp := (List.findIdx?_eq_some_iff_getElem.mp hi).2.1
        have hw : variants[i].wire = s0 := by simpa using hp
        obtain ⟨s, hs, hb⟩ := he variants[i] (List.getElem_mem hlt)
        rw [List.getElem?_eq_getElem hlt] at hde
        refine countV_NF hs ?_
        unfold intBranchE at hb
        split at hb
        · rename_i props req addl
          split at hb
          · rename_i tg' w hfind
            simp only [Bool.and_eq_true, beq_iff_eq] at hb
            obtain ⟨⟨hww, hnd⟩, hdet⟩ := hb
            rw [hw] at hww; subst hww
            have htg' : tg' = tg := by simpa using List.find?_some hfind
            subst htg'
            have htagmem : (tg', Schema.enumVals [.str w]) ∈ props := List.mem_of_find?_eq_some hfind
            cases g with
            | zero => simp [validE, NF]
            | succ g' =>
              have hrec : ∀ s' t' j' v' fd', rec s' t' = true → de x σ fd' t' j' = .ok v' → NF (validE vx d g' s' j') :=
                hr g' (by omega)
              simp only [validE]
              rcases hvi : variants[i] with ⟨raw, idn, dt⟩
              rw [hvi] at hde hdet
              simp only at hde hdet
              cases dt with
              | simple =>
                simp only [Bool.and_eq_true, List.all_eq_true, beq_iff_eq] at hdet
                obtain ⟨⟨hpall, hrall⟩, hopen⟩ := hdet
                refine and3_NF ?_ (and3_NF ?_ ?_)
                · have : requiredE d props kvs req = true := by
                    simp only [requiredE, List.all_eq_true, Bool.or_eq_true]
                    intro r hr'
                    left; rw [hrall r hr', hlk]; rfl
                  simp [this, NF]
                · apply declaredE_NF
                  intro k s1 hks w1 hw1
                  have hk := hpall (k, s1) hks
                  simp only at hk
                  have := find_enum_tag hnd hfind k s1 hks hk
                  simp only [Prod.mk.injEq] at this
                  obtain ⟨rfl, rfl⟩ := this
                  rw [hlk] at hw1
                  simp only [Option.some.injEq] at hw1; subst hw1
                  exact Or.inr (tag_elem w g')
                · apply extraE_NF
                  intro k w1 _ _
                  cases addl <;> simp [extraHere, NF] at hopen ⊢
              | struct ps =>
                simp only at hde
                cases fd with
                | zero => simp [deStruct] at hde
                | succ fd' =>
                  split at hde
                  · rename_i p hp'
                    obtain ⟨hR, hD, hX⟩ := struct_points hrec hdet hp'
                    refine and3_NF ?_ (and3_NF ?_ ?_)
                    · have : requiredE d props kvs req = true := by
                        simp only [requiredE, List.all_eq_true, Bool.or_eq_true] at hR ⊢
                        intro r hr'
                        by_cases hrt : r = tg'
                        · left; rw [hrt, hlk]; rfl
                        · have hmem : r ∈ req.filter (fun r => r != tg') := by
                            simp only [List.mem_filter, bne_iff_ne, ne_eq]; exact ⟨hr', hrt⟩
                          have := hR r hmem
                          rw [lookup_erase_ne hrt, find_filter_ne hrt] at this
                          exact this
                      simp [this, NF]
                    · apply declaredE_NF
                      intro k s1 hks w1 hw1
                      by_cases hk : k = tg'
                      · have := find_enum_tag hnd hfind k s1 hks hk
                        simp only [Prod.mk.injEq] at this
                        obtain ⟨rfl, rfl⟩ := this
                        rw [hlk] at hw1
                        simp only [Option.some.injEq] at hw1; subst hw1
                        exact Or.inr (tag_elem w g')
                      · have hmem : (k, s1) ∈ props.filter (fun p => p.1 != tg') := by
                          simp only [List.mem_filter, bne_iff_ne, ne_eq]; exact ⟨hks, hk⟩
                        have := hD k s1 hmem w1 (by rw [lookup_erase_ne hk]; exact hw1)
                        rcases this with ⟨hn, hc⟩ | hn
                        · left; refine ⟨hn, ?_⟩
                          have : (req.filter (fun r => r != tg')).contains k = req.contains k := by
                            simp only [List.contains_eq_mem, List.mem_filter, bne_iff_ne, ne_eq, hk, not_false_eq_true, and_true]
                          rw [← this]; exact hc
                        · exact Or.inr hn
                    · apply extraE_NF
                      intro k w1 hkw hnot
                      have hk : k ≠ tg' := by
                        intro hk
                        have : props.any (fun p => p.1 == k) = true := by
                          simp only [List.any_eq_true]; exact ⟨_, htagmem, by simp [hk]⟩
                        rw [this] at hnot; exact absurd hnot (by simp)
                      have hmem : (k, w1) ∈ Json.erase kvs tg' := by
                        simp only [Json.erase, List.mem_filter, ne_eq, decide_eq_true_eq]; exact ⟨hkw, hk⟩
                      exact hX k w1 hmem (by rw [any_filter_ne hk]; exact hnot)
                  · simp at hde
              | item t' => simp at hdet
              | tuple ts => simp at hdet
          · simp at hb
        · simp at hb
    · simp at hde
  | arr xs => simp at hde
  | _ => all_goals simp at hde

theorem find_none_any {props : List (String × Schema)} {k : String}
    (h : props.find? (fun p => p.1 == k) = none) : props.any (fun p => p.1 == k) = false := by
  induction props with
  | nil => rfl
  | cons a r ih =>
    simp only [List.find?] at h
    split at h
    · simp at h
    · rename_i hne
      simp only [List.any_cons, hne, Bool.false_or]
      exact ih h

theorem any_false_find_none {props : List (String × Schema)} {k : String}
    (h : props.any (fun p => p.1 == k) = false) : props.find? (fun p => p.1 == k) = none := by
  induction props with
  | nil => rfl
  | cons a r ih =>
    simp only [List.any_cons, Bool.or_eq_false_iff] at h
    simp only [List.find?, h.1]
    exact ih h.2

/-- an adjacently tagged union -/
theorem adjacent_sound {x : Serde.Ext} {vx : Validate.Ext} {d : Doc} {σ : Space} {g : Nat} {rec : Schema → Id → Bool}
    (hr : HR x vx d σ rec g) {ss : List Schema} {nm tg ct : String} {variants : List Variant} {deny : Bool}
    {dv : Option Json} {bes : List Bespoke} {t : Id} {ed : List String} {im : List Impl}
    (hget : σ.get t = some ⟨.enum nm (.adjacent tg ct) variants deny dv bes, ed, im⟩)
    (he : variants.all (fun vr => ss.any (adjBranchE rec d σ deny tg ct vr)) = true)
    {fd : Nat} {j : Json} {v : Val} (hde : de x σ (fd + 1) t j = .ok v) :
    NF ((countV (fun s' => validE vx d g s' j) ss).map (fun n => decide (0 < n))) := by
  simp only [List.all_eq_true, List.any_eq_true] at he
  simp only [de, hget] at hde
  cases j with
  | obj kvs =>
    simp only at hde
    split at hde
    · simp at hde
    · rename_i hdeny
      split at hde
      · rename_i s0 hlk
        split at hde
        · simp at hde
        · rename_i i hi
          have hlt := (List.findIdx?_eq_some_iff_getElem.mp hi).1
          have hp := (List.findIdx?_eq_some_iff_getElem.mp hi).2.1
          have hw : variants[i].wire = s0 := by simpa using hp
          obtain ⟨s, hs, hb⟩ := he variants[i] (List.getElem_mem hlt)
          rw [List.getElem?_eq_getElem hlt] at hde
          refine countV_NF hs ?_
          unfold adjBranchE at hb
          split at hb
          · rename_i props req addl
            split at hb
            · rename_i tg' w hfind
              simp only [Bool.and_eq_true, beq_iff_eq, bne_iff_ne, ne_eq] at hb
              obtain ⟨⟨⟨⟨⟨⟨hww, hne⟩, hnd⟩, hpall⟩, hrall⟩, haddl⟩, hcond⟩ := hb
              rw [hw] at hww; subst hww
              have htg' : tg' = tg := by simpa using List.find?_some hfind
              subst htg'
              have htagmem : (tg', Schema.enumVals [.str w]) ∈ props := List.mem_of_find?_eq_some hfind
              simp only [List.all_eq_true, Bool.or_eq_true, beq_iff_eq] at hpall hrall
              cases g with
              | zero => simp [validE, NF]
              | succ g' =>
                simp only [validE]
                rcases hvi : variants[i] with ⟨raw, idn, dt⟩
                rw [hvi] at hde hcond
                simp only at hde hcond
                -- what the schema says of the content member
                cases hfc : props.find? (fun p => p.1 == ct) with
                | none =>
                  rw [hfc] at hcond
                  simp only [Bool.and_eq_true, Bool.not_eq_true'] at hcond
                  obtain ⟨⟨hsimple, hopen⟩, hnreq⟩ := hcond
                  have hdts : dt = .simple := by
                    cases dt <;> simp [isSimple] at hsimple ⊢
                  subst hdts
                  have hopen' : addl = .open_ := by cases addl <;> simp at hopen ⊢
                  subst hopen'
                  refine and3_NF ?_ (and3_NF ?_ ?_)
                  · have : requiredE d props kvs req = true := by
                      simp only [requiredE, List.all_eq_true, Bool.or_eq_true]
                      intro r hr'
                      rcases hrall r hr' with h | h
                      · left; rw [h, hlk]; rfl
                      · exfalso
                        have : req.contains ct = true := by simp [← h, hr']
                        rw [this] at hnreq; exact absurd hnreq (by simp)
                    simp [this, NF]
                  · apply declaredE_NF
                    intro k s1 hks w1 hw1
                    rcases hpall (k, s1) hks with hk | hk
                    · have := find_enum_tag hnd hfind k s1 hks hk
                      simp only [Prod.mk.injEq] at this
                      obtain ⟨rfl, rfl⟩ := this
                      rw [hlk] at hw1
                      simp only [Option.some.injEq] at hw1; subst hw1
                      exact Or.inr (tag_elem w g')
                    · exfalso
                      simp only at hk
                      have := find_none_any hfc
                      have hmem : props.any (fun p => p.1 == ct) = true := by
                        simp only [List.any_eq_true]; exact ⟨(k, s1), hks, by simp [hk]⟩
                      rw [hmem] at this; exact absurd this (by simp)
                  · apply extraE_NF
                    intro k w1 _ _
                    simp [extraHere, NF]
                | some q =>
                  obtain ⟨ct', sc⟩ := q
                  have hct' : ct' = ct := by simpa using List.find?_some hfc
                  subst hct'
                  rw [hfc] at hcond
                  simp only at hcond
                  refine and3_NF ?_ (and3_NF ?_ ?_)
                  · -- required
                    have : requiredE d props kvs req = true := by
                      simp only [requiredE, List.all_eq_true, Bool.or_eq_true]
                      intro r hr'
                      rcases hrall r hr' with h | h
                      · left; rw [h, hlk]; rfl
                      · subst h
                        cases hcl : Json.lookup kvs r with
                        | some body => left; rfl
                        | none =>
                          right
                          rw [hfc]
                          simp only
                          rw [hcl] at hde
                          cases dt with
                          | simple => simpa [isSimple] using hcond
                          | item t' =>
                            simp only [isSimple, Bool.false_eq_true, if_false, Bool.and_eq_true, Bool.or_eq_true,
                              Bool.not_eq_true'] at hcond
                            simp only at hde
                            split at hde
                            · rename_i hol
                              have hreqc : req.contains r = true := by simp [hr']
                              rcases hcond.2 with (h1 | h1) | h1
                              · rw [hol] at h1; exact absurd h1 (by simp)
                              · rw [hreqc] at h1; exact absurd h1 (by simp)
                              · exact h1
                            · simp at hde
                          | tuple ts => simp at hde
                          | struct ps => simp at hde
                    simp [this, NF]
                  · -- declared members: the tag and the content
                    apply declaredE_NF
                    intro k s1 hks w1 hw1
                    rcases hpall (k, s1) hks with hk | hk
                    · have := find_enum_tag hnd hfind k s1 hks hk
                      simp only [Prod.mk.injEq] at this
                      obtain ⟨rfl, rfl⟩ := this
                      rw [hlk] at hw1
                      simp only [Option.some.injEq] at hw1; subst hw1
                      exact Or.inr (tag_elem w g')
                    · simp only at hk
                      have := find_enum_tag hnd hfc k s1 hks hk
                      simp only [Prod.mk.injEq] at this
                      obtain ⟨rfl, rfl⟩ := this
                      rw [hw1] at hde
                      right
                      cases dt with
                      | simple =>
                        have hadm : admitsNull d (nullFuel d) s1 = true := by simpa [isSimple] using hcond
                        cases w1 with
                        | null => exact admitsNull_valid _ _ hadm g'
                        | _ => all_goals simp at hde
                      | item t' =>
                        simp only [isSimple, Bool.false_eq_true, if_false, Bool.and_eq_true] at hcond
                        simp only at hde
                        split at hde
                        · rename_i p hp'
                          cases fd with
                          | zero => simp [deVariantBody] at hp'
                          | succ fd' => exact variantE_sound hr hcond.1 hp' g' (by omega)
                        · simp at hde
                      | tuple ts =>
                        simp only [isSimple, Bool.false_eq_true, if_false, Bool.and_eq_true] at hcond
                        simp only at hde
                        split at hde
                        · rename_i p hp'
                          cases fd with
                          | zero => simp [deVariantBody] at hp'
                          | succ fd' => exact variantE_sound hr hcond.1 hp' g' (by omega)
                        · simp at hde
                      | struct ps =>
                        simp only [isSimple, Bool.false_eq_true, if_false, Bool.and_eq_true] at hcond
                        simp only at hde
                        split at hde
                        · rename_i p hp'
                          cases fd with
                          | zero => simp [deVariantBody] at hp'
                          | succ fd' => exact variantE_sound hr hcond.1 hp' g' (by omega)
                        · simp at hde
                  · -- other members
                    apply extraE_NF
                    intro k w1 hkw hnot
                    cases addl with
                    | open_ => simp [extraHere, NF]
                    | schema sv => simp at haddl
                    | closed =>
                      exfalso
                      simp only at haddl
                      subst haddl
                      have hk : k = tg' ∨ k = ct' := by
                        have hd : ¬ (kvs.any (fun kv => kv.1 ≠ tg' && kv.1 ≠ ct') = true) := by simpa using hdeny
                        by_cases h1 : k = tg'
                        · exact Or.inl h1
                        · by_cases h2 : k = ct'
                          · exact Or.inr h2
                          · exfalso; apply hd
                            simp only [List.any_eq_true]
                            exact ⟨(k, w1), hkw, by simp [h1, h2]⟩
                      have : props.any (fun p => p.1 == k) = true := by
                        simp only [List.any_eq_true]
                        rcases hk with hk | hk
                        · exact ⟨_, htagmem, by simp [hk]⟩
                        · exact ⟨_, List.mem_of_find?_eq_some hfc, by simp [hk]⟩
                      rw [this] at hnot; exact absurd hnot (by simp)
            · simp at hb
          · simp at hb
      · simp at hde
  | arr xs => simp at hde
  | _ => all_goals simp at hde

/-- one schema construct against one non-transparent kind of entry -/
theorem encD_sound {x : Serde.Ext} {vx : Validate.Ext} (hreg : ∀ p s, x.regex p s = vx.regex p s)
    {d : Doc} {σ : Space} {g : Nat} {rec : Schema → Id → Bool}
    (hr : HR x vx d σ rec g)
    {s : Schema} {t : Id} {det : Details} {ed : List String} {im : List Impl} (hget : σ.get t = some ⟨det, ed, im⟩)
    (he : encD rec d σ s det = true) {fd : Nat} {j : Json} {v : Val} (hde : de x σ (fd + 1) t j = .ok v) :
    NF (validE vx d (g + 1) s j) := by
  have hrec : ∀ s' t' j' v' fd', rec s' t' = true → de x σ fd' t' j' = .ok v' → NF (validE vx d g s' j') :=
    hr g (Nat.le_refl g)
  unfold encD at he
  split at he
  · -- null / unit
    cases j <;> simp [de, hget, validE, NF] at hde ⊢
  · -- a schema that admits null / unit
    cases j with
    | null => exact admitsNull_valid _ _ he (g + 1)
    | _ => all_goals simp [de, hget] at hde
  · cases j <;> simp [de, hget, validE, NF] at hde ⊢
  · cases j <;> simp [de, hget, validE, NF] at hde ⊢
  · -- number / integer
    rename_i name
    cases hr : rtyOfName name with
    | none => simp [hr] at he
    | some ty => cases j <;> simp [de, hget, hr, validE, NF] at hde ⊢
  · rename_i lo hi name
    cases hr : rtyOfName name with
    | none => simp [hr] at he
    | some ty => cases j <;> simp [de, hget, hr, validE, NF] at hde ⊢
  · -- string / String
    rename_i mn mx pat
    cases j with
    | str w =>
      have := strEnc_sound (x := x) hreg (s := w) he (by simp [checkString])
      simp only [validE, NF, ne_eq, Option.some.injEq]
      intro hc
      exact Bool.noConfusion (hc.symm.trans this)
    | _ => all_goals simp [de, hget] at hde
  · -- string / constrained newtype
    rename_i mn mx pat nm inner tmx tmn tpat dv
    simp only [Bool.and_eq_true] at he
    obtain ⟨hin, hse⟩ := he
    split at hin
    · rename_i ed' im' hgi
      cases fd with
      | zero => simp [de, hget] at hde
      | succ fd' =>
        simp only [de, hget, hgi] at hde
        cases j with
        | str w =>
          simp only at hde
          split at hde
          · rename_i hc
            have := strEnc_sound (x := x) hreg (s := w) hse hc
            simp only [validE, NF, ne_eq, Option.some.injEq]
            intro hc
            exact Bool.noConfusion (hc.symm.trans this)
          · simp at hde
        | _ => all_goals simp at hde
    · simp at hin
  · -- enumerated strings / data-less external enum
    rename_i vs nm variants deny dv bes
    simp only [Bool.and_eq_true, List.all_eq_true] at he
    obtain ⟨hsimple, hmem⟩ := he
    simp only [de, hget] at hde
    cases j with
    | str w =>
      simp only at hde
      split at hde
      · simp at hde
      · rename_i i hi
        have hlt := (List.findIdx?_eq_some_iff_getElem.mp hi).1
        have hp := (List.findIdx?_eq_some_iff_getElem.mp hi).2.1
        have hvi : variants[i] ∈ variants := List.getElem_mem hlt
        have hw : variants[i].wire = w := by simpa using hp
        have := hmem variants[i] hvi
        rw [hw] at this
        simp only [validE, NF, ne_eq, Option.some.injEq, Bool.or_eq_false_iff, not_and]
        intro hc; rw [this] at hc; exact absurd hc (by simp)
    | obj kvs =>
      cases kvs with
      | nil => simp at hde
      | cons kv rest =>
        obtain ⟨k, body⟩ := kv
        simp only at hde
        split at hde
        · simp at hde
        · rename_i hall
          split at hde
          · simp at hde
          · rename_i i hi
            have hlt := (List.findIdx?_eq_some_iff_getElem.mp hi).1
            have hp := (List.findIdx?_eq_some_iff_getElem.mp hi).2.1
            have hvi : variants[i] ∈ variants := List.getElem_mem hlt
            have hw : variants[i].wire = k := by simpa using hp
            have hm := hmem variants[i] hvi
            rw [hw] at hm
            have hs := hsimple variants[i] hvi
            rw [List.getElem?_eq_getElem hlt] at hde
            simp only at hde
            -- the payload of a data-less variant is `null`
            have hbody : body = .null := by
              cases hdv : variants[i].details with
              | simple =>
                rw [hdv] at hde
                cases fd with
                | zero => simp [deVariantBody] at hde
                | succ fd' =>
                  simp only [deVariantBody] at hde
                  cases body <;> simp at hde ⊢
              | _ => all_goals (simp [isSimple, hdv] at hs)
            subst hbody
            have hall' : rest.all (fun kv => kv.1 == k) = true := by simpa using hall
            simp only [validE, NF, ne_eq, Option.some.injEq, Bool.or_eq_false_iff, not_and]
            intro _
            simp [hall', hm]
    | _ => all_goals simp at hde
  · -- array / fixed array
    rename_i items mn mx uq t' n
    simp only [de, hget] at hde
    cases j with
    | arr xs =>
      simp only at hde
      split at hde
      · split at hde
        · rename_i vs hvs
          simp only [validE]
          exact allJ_NF (fun y hy => by obtain ⟨v', hv'⟩ := mapM'_de_mem hvs y hy; exact hrec items t' y v' fd he hv')
        · simp at hde
      · simp at hde
    | _ => all_goals simp at hde
  · -- array / Vec
    rename_i items mn mx uq t'
    simp only [de, hget] at hde
    cases j with
    | arr xs =>
      simp only at hde
      split at hde
      · rename_i vs hvs
        simp only [validE]
        exact allJ_NF (fun y hy => by obtain ⟨v', hv'⟩ := mapM'_de_mem hvs y hy; exact hrec items t' y v' fd he hv')
      · simp at hde
    | _ => all_goals simp at hde
  · -- array / set
    rename_i items mn mx uq t'
    simp only [de, hget] at hde
    cases j with
    | arr xs =>
      simp only at hde
      split at hde
      · rename_i vs hvs
        simp only [validE]
        exact allJ_NF (fun y hy => by obtain ⟨v', hv'⟩ := mapM'_de_mem hvs y hy; exact hrec items t' y v' fd he hv')
      · simp at hde
    | _ => all_goals simp at hde
  · -- map
    rename_i sv k vt
    simp only [Bool.and_eq_true] at he
    simp only [de, hget] at hde
    cases j with
    | obj kvs =>
      simp only at hde
      split at hde
      · rename_i es hes
        simp only [validE]
        refine and3_NF (by simp [requiredE, NF]) (and3_NF (by simp [declaredE, NF]) ?_)
        apply extraE_NF
        intro key w hkw _
        simp only [extraHere]
        obtain ⟨b, hb⟩ := C05.mapM'_mem hes (key, w) hkw
        simp only at hb
        cases hvw : de x σ fd vt w with
        | ok vv => exact hrec sv vt w vv fd he.2 hvw
        | error e =>
          rw [hvw] at hb
          split at hb <;> simp_all
      · simp at hde
    | arr xs => simp [validE, NF]
    | _ => all_goals simp at hde
  · -- open object without properties / map
    rename_i k vt
    simp only [de, hget] at hde
    cases j with
    | obj kvs =>
      simp only [validE]
      refine and3_NF (by simp [requiredE, NF]) (and3_NF (by simp [declaredE, NF]) ?_)
      apply extraE_NF
      intro key w _ _
      simp [extraHere, NF]
    | arr xs => simp [validE, NF]
    | _ => all_goals simp at hde
  · -- tuple
    rename_i items ts
    simp only [de, hget] at hde
    cases j with
    | arr xs =>
      simp only at hde
      split at hde
      · rename_i vs hvs
        obtain ⟨hl, hz⟩ := zipB_get he
        have hlen := C05.zipM_length hvs
        simp only [validE]
        refine zipV_NF (by omega) ?_
        intro n s' j' hs hj
        have hn : n < ts.length := by
          have := (List.getElem?_eq_some_iff.mp hs).1; omega
        have ht : ts[n]? = some ts[n] := List.getElem?_eq_getElem hn
        obtain ⟨v', hv'⟩ := zipM_get hvs n ts[n] j' ht hj
        exact hrec s' ts[n] j' v' fd (hz n s' ts[n] hs ht) hv'
      · simp at hde
    | _ => all_goals simp at hde
  · -- object / struct
    rename_i props req addl nm fields deny dv
    simp only [de, hget] at hde
    cases fd with
    | zero => simp [deStruct] at hde
    | succ fd' => exact struct_sound hrec he hde
  · rename_i s' t'
    simp only [validE]
    exact option_sound hrec hget he hde [s', .null] (by simp) (by simp)
  · rename_i s' t' _
    simp only [validE]
    exact option_sound hrec hget he hde [.null, s'] (by simp) (by simp)
  · rename_i s' t'
    simp only [validE]
    exact option_sound hrec hget he hde [s', .null] (by simp) (by simp)
  · rename_i s' t' _
    simp only [validE]
    exact option_sound hrec hget he hde [.null, s'] (by simp) (by simp)
  · simp only [validE]; exact external_sound hr hget he hde
  · simp only [validE]; exact external_sound hr hget he hde
  · simp only [validE]; exact internal_sound hr hget he hde
  · simp only [validE]; exact internal_sound hr hget he hde
  · simp only [validE]; exact adjacent_sound hr hget he hde
  · simp only [validE]; exact adjacent_sound hr hget he hde
  · simp only [validE]; exact untagged_sound hr hget he hde
  · simp only [validE]; exact untagged_sound hr hget he hde
  · simp at he

/-- **C05 at the level of the schema.** For every document, IR, registration of the definitions, schema, type, JSON
    document and all fuels: if every definition is enforced by its registered type and `encB` holds of `(S, τ)`, then
    whatever `τ`'s `Deserialize` accepts is not invalid under the enforced projection of `S`. -/
theorem enc_sound {x : Serde.Ext} {vx : Validate.Ext} (hreg : ∀ p s, x.regex p s = vx.regex p s)
    {d : Doc} {σ : Space} (rid : String → Option Id) (hall : AllEnc σ rid d)
    (hrid : ∀ k t, rid k = some t → ∃ s, d.get k = some s) :
    ∀ (g fc : Nat) (s : Schema) (t : Id) (j : Json) (v : Val) (fd : Nat),
      encB d σ rid fc s t = true → de x σ fd t j = .ok v → NF (validE vx d g s j) := by
  intro g
  induction g using Nat.strongRecOn with
  | _ g ihg =>
    cases g with
    | zero => intro fc s t j v fd _ _; simp [validE, NF]
    | succ g =>
      intro fc
      induction fc with
      | zero => intro s t j v fd hc; simp [encB] at hc
      | succ fc ihc =>
        intro s t j v fd hc hde
        by_cases hany : s = .any
        · subst hany; simp [validE, NF]
        by_cases href : ∃ k, s = .ref k
        · obtain ⟨k, rfl⟩ := href
          simp only [encB, Bool.or_eq_true, beq_iff_eq] at hc
          rcases hc with hc | hc
          · obtain ⟨s', hg⟩ := hrid k t hc
            simp only [validE, hg]
            obtain ⟨t', fc', hr, hc'⟩ := hall k s' hg
            rw [hc] at hr
            simp only [Option.some.injEq] at hr; subst hr
            exact ihg g (by omega) fc' s' t j v fd hc' hde
          · split at hc
            · rename_i t' ed im hg
              cases fd with
              | zero => simp [de] at hde
              | succ f =>
                simp only [de, hg] at hde
                exact ihc (.ref k) t' j v f hc hde
            · rename_i nm inner dfl ed im hg
              cases fd with
              | zero => simp [de] at hde
              | succ f =>
                simp only [de, hg] at hde
                split at hde
                · simp at hde
                · rename_i v' hv'
                  exact ihc (.ref k) inner j v' f hc hv'
            · simp at hc
        · have hc2 : (match σ.get t with
              | none => false
              | some ent =>
                match ent.details with
                | .newtype _ inner .none _ => encB d σ rid fc s inner
                | .box t' => encB d σ rid fc s t'
                | det => encD (encB d σ rid fc) d σ s det ||
                    (singleBranch s).any (fun s' => encB d σ rid fc s' t)) = true := by
            cases s <;> first | (exact absurd rfl hany) | (exact absurd ⟨_, rfl⟩ href) | (simp only [encB] at hc; exact hc)
          cases hg : σ.get t with
          | none => rw [hg] at hc2; simp at hc2
          | some ent =>
            rw [hg] at hc2
            obtain ⟨det, ed, im⟩ := ent
            simp only at hc2
            cases fd with
            | zero => simp [de] at hde
            | succ f =>
              by_cases hnt : ∃ n inner dfl, det = .newtype n inner .none dfl
              · obtain ⟨n, inner, dfl, rfl⟩ := hnt
                simp only at hc2
                simp only [de, hg] at hde
                split at hde
                · simp at hde
                · rename_i v' hv'
                  simp only [Except.ok.injEq] at hde
                  exact ihc s inner j v' f hc2 hv'
              · by_cases hbx : ∃ t', det = .box t'
                · obtain ⟨t', rfl⟩ := hbx
                  simp only at hc2
                  simp only [de, hg] at hde
                  exact ihc s t' j v f hc2 hde
                · have hc3 : (encD (encB d σ rid fc) d σ s det ||
                      (singleBranch s).any (fun s' => encB d σ rid fc s' t)) = true := by
                    cases det with
                    | newtype n inner c dfl =>
                      cases c with
                      | none => exact absurd ⟨n, inner, dfl, rfl⟩ hnt
                      | _ => exact hc2
                    | box t' => exact absurd ⟨t', rfl⟩ hbx
                    | _ => exact hc2
                  have hr : HR x vx d σ (encB d σ rid fc) g := by
                    intro g' hg' s' t' j' v' fd' h hd
                    exact ihg g' (by omega) fc s' t' j' v' fd' h hd
                  simp only [Bool.or_eq_true] at hc3
                  rcases hc3 with hc3 | hc3
                  · exact encD_sound hreg hr hg hc3 hde
                  · have hdeF : de x σ (f + 1) t j = .ok v := hde
                    cases hsb : singleBranch s with
                    | none => rw [hsb] at hc3; simp at hc3
                    | some s' =>
                      rw [hsb] at hc3
                      simp only [Option.any_some] at hc3
                      have hsub := ihg g (by omega) fc s' t j v (f + 1) hc3 hdeF
                      unfold singleBranch at hsb
                      split at hsb
                      · simp only [Option.some.injEq] at hsb; subst hsb
                        simp only [validE]; exact countV_NF (by simp) hsub
                      · simp only [Option.some.injEq] at hsb; subst hsb
                        simp only [validE]; exact countV_NF (by simp) hsub
                      · simp only [Option.some.injEq] at hsb; subst hsb
                        simp only [validE, allV]; exact and3_NF hsub (by simp [NF])
                      · simp at hsb

/-! ## non-vacuity and a counterexample

A recursive definition `Node = {next?: Node, v: integer, tag: string (pattern, 1..3 chars)}`, closed, read by a struct
with `deny_unknown_fields`, an optional boxed self reference and a constrained newtype: `encB` holds; dropping the
pattern from the newtype (what a conversion that loses the constraint would produce) makes it false. -/
def exDoc : Doc := { defs := [("Node", .object [("next", .ref "Node"), ("tag", .string (some 1) (some 3) (some "^[a-z]+$")),
  ("v", .integer none none)] ["v", "tag"] .closed)] }
def exSpace : Space := { entries := [
  (1, ⟨.struct "Node" [⟨"next", .none, .optional, 3⟩, ⟨"tag", .none, .required, 5⟩, ⟨"v", .none, .required, 2⟩] true none, [], []⟩),
  (2, ⟨.integer "i64", [], []⟩),
  (3, ⟨.option 4, [], []⟩),
  (4, ⟨.box 1, [], []⟩),
  (5, ⟨.newtype "NodeTag" 6 (.string (some 3) (some 1) (some "^[a-z]+$")) none, [], []⟩),
  (6, ⟨.string, [], []⟩)] }
def exSpaceLost : Space := { entries := exSpace.entries.map fun e =>
  if e.1 == 5 then (5, ⟨.newtype "NodeTag" 6 (.string (some 3) (some 1) none) none, [], []⟩) else e }
def exRid (k : String) : Option Id := if k = "Node" then some 1 else none
def exNode : Schema := .object [("next", .ref "Node"), ("tag", .string (some 1) (some 3) (some "^[a-z]+$")),
  ("v", .integer none none)] ["v", "tag"] .closed

example : encB exDoc exSpace exRid 6 exNode 1 = true := by decide
example : encB exDoc exSpaceLost exRid 6 exNode 1 = false := by decide

end TypifyModel.C05E

import TypifyModel.Proofs.Lemmas.DefaultsEnum
import TypifyModel.Proofs.C18
/-! # C06 — defaults are reproduced exactly, or rejected when the schema is added

∀ IR (`Space`), ∀ JSON default values, ∀ fuel. `Model/Defaults.lean` is `validate_value` /
`has_default` / `check_defaults`, `Model/Value.lean` is `output_value` / `default_fn` plus the typing
judgement and evaluator of the emitted expressions; `Serde.de` / `Serde.dflt` / `Builder.initSlot` are
the run-time meaning of the generated code (tied to compiled code by M3). "Serializes to the schema's
default up to filling of nested defaults" is `eval e = de d`: `se ∘ de` is the filling.

Hypothesis `WFDefault` (Model/DefaultsWF.lean) names the fragment; what it excludes because the
property is FALSE there is refuted in `Proofs/C06Findings.lean`. -/
namespace TypifyModel.C06
open TypifyModel TypifyModel.Serde TypifyModel.Defaults

/-! ## default_value -/

/-- full statement: whatever `validate_value` accepts is rendered as a well-typed expression whose
    value is what deserializing the default gives -/
def default_value_full : Prop :=
  ∀ (x : Ext) (σ : Space) (n : Nat) (t : Id) (d : Json) (k : DKind), validateValue x σ n t d = .ok k →
    ∃ e, outputValue x σ n t d = .ok e ∧ hasType σ n e t = true ∧ ∀ m, eval x σ m e t = de x σ m t d

/-- **C06 default_value** (inside `WFDefault`): the emitted expression is well typed at the
    property's type and evaluates, for every fuel, to exactly `de d`; and `d` deserializes -/
theorem default_value_partial (x : Ext) (σ : Space) (n : Nat) (t : Id) (d : Json) (k : DKind)
    (hv : validateValue x σ n t d = .ok k) (hw : WFDefault x σ n t d = true) :
    ∃ e, outputValue x σ n t d = .ok e ∧ hasType σ n e t = true ∧
      ∀ m, eval x σ m e t = de x σ m t d ∧ de x σ m t d ≠ .error .reject :=
  good_all x σ n t d k hv hw

def exSpace : Space := { entries := [
  (0, ⟨.integer "u8", [], []⟩),
  (1, ⟨.string, [], []⟩),
  (2, ⟨.vec 0, [], []⟩),
  (3, ⟨.enum "Color" .external [⟨"red", "Red", .simple⟩, ⟨"rgb", "Rgb", .tuple [0, 0, 0]⟩] false none [], [], []⟩),
  (4, ⟨.option 1, [], []⟩),
  (5, ⟨.struct "S" [⟨"a", .none, .required, 2⟩, ⟨"c", .rename "C", .required, 3⟩, ⟨"o", .none, .optional, 4⟩] false none, [], []⟩),
  (6, ⟨.tuple [0], [], []⟩)] }

def exExt : Ext := { regex := fun _ _ => true }

def exDefault : Json := .obj [("C", .obj [("rgb", .arr [.int 1, .int 2, .int 255])]), ("a", .arr [.int 7])]

/-- non-vacuity: a struct default with a vector, a renamed member holding a tuple variant, and an
    omitted optional member satisfies both hypotheses; a one-element tuple does too -/
example : validateValue exExt exSpace 6 5 exDefault = .ok .specific ∧ WFDefault exExt exSpace 6 5 exDefault = true := by
  refine ⟨?_, ?_⟩ <;> rfl
example : validateValue exExt exSpace 6 6 (.arr [.int 3]) = .ok .specific ∧
    WFDefault exExt exSpace 6 6 (.arr [.int 3]) = true ∧
    outputValue exExt exSpace 6 6 (.arr [.int 3]) = .ok (.paren [.numLit (.int 3) "u8"] true) := by
  refine ⟨?_, ?_, ?_⟩ <;> rfl

/-! ## bad_default -/

/-- full statement: a default the type's own deserializer rejects is an error of `validate_value` -/
def bad_default_full : Prop :=
  ∀ (x : Ext) (σ : Space) (n m : Nat) (t : Id) (d : Json), de x σ m t d = .error .reject →
    ∀ k, validateValue x σ n t d ≠ .ok k

/-- **C06 bad_default** (inside `WFDefault`): a default that does not deserialize into the
    property's type is never accepted; so `check_defaults`, hence the `add_*` call, fails -/
theorem bad_default_partial (x : Ext) (σ : Space) (n m : Nat) (t : Id) (d : Json)
    (hw : WFDefault x σ n t d = true) (hbad : de x σ m t d = .error .reject) :
    ∀ k, validateValue x σ n t d ≠ .ok k := by
  intro k hv
  obtain ⟨_, _, _, h⟩ := good_all x σ n t d k hv hw
  exact (h m).2 hbad

/-- what acceptance by the deserializer means for an invalid default of the kinds listed in the
    property: the error is `InvalidValue`, not a panic (the result is one of three) -/
theorem bad_default_is_err (x : Ext) (σ : Space) (n m : Nat) (t : Id) (d : Json)
    (hw : WFDefault x σ n t d = true) (hbad : de x σ m t d = .error .reject) :
    validateValue x σ n t d = .error .invalid ∨ validateValue x σ n t d = .error .panic ∨
      validateValue x σ n t d = .error .fuel := by
  cases h : validateValue x σ n t d with
  | ok k => exact absurd h (bad_default_partial x σ n m t d hw hbad k)
  | error e => cases e <;> simp

/-- non-vacuity: 300 for `u8`, a number for a string, a wrong tuple arity, an unknown variant, a missing
    required member: inside `WFDefault`, rejected by `de` — and by `validate_value` -/
example : WFDefault exExt exSpace 6 0 (.int 300) = true ∧ de exExt exSpace 6 0 (.int 300) = .error .reject ∧
    validateValue exExt exSpace 6 0 (.int 300) = .error .invalid := by
  refine ⟨?_, ?_, ?_⟩ <;> rfl
example : WFDefault exExt exSpace 6 1 (.int 5) = true ∧ de exExt exSpace 6 1 (.int 5) = .error .reject ∧
    validateValue exExt exSpace 6 1 (.int 5) = .error .invalid := by
  refine ⟨?_, ?_, ?_⟩ <;> rfl
example : WFDefault exExt exSpace 6 3 (.obj [("rgb", .arr [.int 1])]) = true ∧
    de exExt exSpace 6 3 (.obj [("rgb", .arr [.int 1])]) = .error .reject ∧
    validateValue exExt exSpace 6 3 (.obj [("rgb", .arr [.int 1])]) = .error .invalid := by
  refine ⟨?_, ?_, ?_⟩ <;> rfl
example : WFDefault exExt exSpace 6 3 (.str "blue") = true ∧ de exExt exSpace 6 3 (.str "blue") = .error .reject ∧
    validateValue exExt exSpace 6 3 (.str "blue") = .error .invalid := by
  refine ⟨?_, ?_, ?_⟩ <;> rfl
example : WFDefault exExt exSpace 6 5 (.obj [("a", .arr [])]) = true ∧
    de exExt exSpace 6 5 (.obj [("a", .arr [])]) = .error .reject ∧
    validateValue exExt exSpace 6 5 (.obj [("a", .arr [])]) = .error .invalid := by
  refine ⟨?_, ?_, ?_⟩ <;> rfl

/-! ## generic_default -/

/-- **C06 generic_default**: `defaults::default_u64::<T, N>` / `default_i64` / `default_nzu64`
    (`T::try_from(N).unwrap()`) yield `N` when `N` is in `T`'s range and panic otherwise -/
theorem generic_default (ty : String) (r : RTy) (h : rtyOfName ty = some r) (n : Int) (nz : Bool) :
    genericRun ty n nz =
      if nz && n == 0 then .panic else if r.inRange n then .value (.int n) else .panic := by
  unfold genericRun RTy.inRange
  rw [h]

/-- the function `default_fn` names, run -/
def fnValue (x : Ext) (σ : Space) (m : Nat) (t : Id) : FnOut → Except E Val
  | .boolTrue => .ok (.bool true)
  | .u64 ty n => (match genericRun ty n false with | .value v => .ok v | _ => .error .unsupported)
  | .nzu64 ty n => (match genericRun ty n true with | .value v => .ok v | _ => .error .unsupported)
  | .i64 ty n => (match genericRun ty n false with | .value v => .ok v | _ => .error .unsupported)
  | .custom e => eval x σ m e t
  | _ => .error .unsupported

/-- **which generic defaults reach code generation**: for an integer-typed property whose default
    `validate_value` accepts, `default_fn` names a generic function (or none is needed), the value is in
    the type's range — C10's range check is repeated exactly, in integers, by `integer_fits` — so the
    function does not panic, and it returns what deserializing the default gives -/
theorem generic_default_reaches (x : Ext) (σ : Space) (n m : Nat) (t : Id) (d : Json) (k : DKind)
    (name : String) (ed : List String) (im : List Impl) (r : RTy)
    (hg : σ.get t = some ⟨.integer name, ed, im⟩) (hr : rtyOfName name = some r)
    (hv : validateValue x σ (n + 1) t d = .ok k) :
    ∃ v, d = .int v ∧ r.inRange v ∧ de x σ (m + 1) t d = .ok (.int v) ∧
      (defaultFn x σ n t d = .u64 name v ∨ defaultFn x σ n t d = .nzu64 name v ∨ defaultFn x σ n t d = .i64 name v) ∧
      fnValue x σ (m + 1) t (defaultFn x σ n t d) = .ok (.int v) := by
  simp only [validateValue, hg] at hv
  obtain ⟨v, rfl, hlo, hhi⟩ := validateInteger_ok hv hr
  have hnz0 : ¬ (r.isNonZero = true ∧ v = 0) := by
    intro ⟨h1, h2⟩
    subst h2
    cases r <;> simp [RTy.isNonZero] at h1 <;> simp [RTy.lo] at hlo
  have hrun : ∀ nz : Bool, (nz = true → r.isNonZero = true) → genericRun name v nz = .value (.int v) := by
    intro nz hnz
    rw [generic_default name r hr]
    have : (nz && v == 0) = false := by
      cases hz : nz <;> cases hv0 : (v == 0) <;> simp_all
    simp [this, RTy.inRange, hlo, hhi]
  have hp := nz_prefix hr
  refine ⟨v, rfl, ⟨hlo, hhi⟩, by simp [de, hg, hr, hlo, hhi], ?_⟩
  simp only [defaultFn, hg, asU64, asI64]
  by_cases h1 : 0 ≤ v ∧ v ≤ u64Max
  · simp only [h1, and_self, if_true, hp]
    cases hz : r.isNonZero
    · simp [fnValue, hrun false (by simp)]
    · simp [fnValue, hrun true (by simp [hz])]
  · have h2 : i64Min ≤ v ∧ v ≤ i64Max := by
      unfold u64Max at h1
      unfold i64Min i64Max
      cases r <;> simp [RTy.lo, RTy.hi] at hlo hhi <;> omega
    simp [h1, h2, fnValue, hrun false (by simp)]

example : validateValue exExt exSpace 6 0 (.int 200) = .ok (.generic .u64) ∧ genericRun "u8" 200 false = .value (.int 200) ∧
    genericRun "u8" 300 false = .panic ∧ genericRun "::std::num::NonZeroU8" 0 true = .panic := by
  refine ⟨?_, ?_, ?_, ?_⟩ <;> rfl

/-! ## no_late_panic -/

/-- **C06 no_late_panic** (inside `WFDefault`, for a property state `has_default` produces): the
    default-function rendering of `generate_serde_attr` neither panics nor fails -/
theorem no_late_panic_partial (x : Ext) (σ : Space) (n : Nat) (t : Id) (d : Json) (k : DKind)
    (hv : validateValue x σ (n + 1) t d = .ok k) (hw : WFDefault x σ (n + 1) t d = true)
    (hs : hasDefault σ t (some d) = .dflt d) :
    (∃ e, defaultFn x σ (n + 1) t d = .custom e ∧ outputValue x σ (n + 1) t d = .ok e) ∨
    defaultFn x σ (n + 1) t d = .boolTrue ∨
    ∃ ty v, defaultFn x σ (n + 1) t d = .u64 ty v ∨ defaultFn x σ (n + 1) t d = .nzu64 ty v ∨
      defaultFn x σ (n + 1) t d = .i64 ty v := by
  obtain ⟨e, ho, _, _⟩ := good_all x σ (n + 1) t d k hv hw
  cases hg : σ.get t with
  | none => simp [validateValue, hg] at hv
  | some ent =>
    obtain ⟨det, ed, im⟩ := ent
    cases det
    case unit =>
      simp only [validateValue, hg] at hv
      cases d <;> simp at hv
      simp [hasDefault, hg] at hs
    case boolean => exact Or.inr (Or.inl (by simp [defaultFn, hg]))
    case integer name =>
      cases hr : rtyOfName name with
      | none => simp [WFDefault, hg, hr] at hw
      | some r =>
        obtain ⟨v, _, _, _, h, _⟩ := generic_default_reaches x σ n 0 t d k name ed im r hg hr hv
        have hdf : defaultFn x σ (n + 1) t d = defaultFn x σ n t d := by simp [defaultFn, hg]
        exact Or.inr (Or.inr ⟨name, v, by rw [hdf]; exact h⟩)
    all_goals exact Or.inl ⟨e, by simp [defaultFn, hg, ho], ho⟩

example : hasDefault exSpace 3 (some (.str "red")) = .dflt (.str "red") ∧
    validateValue exExt exSpace 6 3 (.str "red") = .ok .specific ∧ WFDefault exExt exSpace 6 3 (.str "red") = true := by
  refine ⟨?_, ?_, ?_⟩ <;> rfl

/-! ## default_same: one default, three consumers -/

/-- the value all three consumers use for a property with `state = dflt d` -/
def propDefault (x : Ext) (σ : Space) (f : Nat) (p : Field) (d : Json) : Except E Val :=
  match de x σ f p.ty d with
  | .ok v => .ok v
  | .error .reject => .error .unsupported
  | .error e => .error e

/-- **C06 default_same (builder)**: the initial slot of `builder::T` holds that value -/
theorem default_same_builder (x : Ext) (σ : Space) (f : Nat) (p : Field) (d : Json) (hs : p.state = .dflt d) :
    Builder.initSlot x σ f p = (match propDefault x σ f p d with | .ok v => .ok (.ok v) | .error e => .error e) := by
  simp only [Builder.initSlot, propDefault, hs]
  cases h : de x σ f p.ty d with
  | ok v => simp
  | error e => cases e <;> simp

/-- **C06 default_same (serde, `Default`)**: for a struct all of whose members have defaults,
    `Default::default()` is what deserializing `{}` gives: every member takes the same default
    function in both; and the builder with nothing set builds that value too (C18.build_eq_de) -/
theorem default_same_de_dflt (x : Ext) (σ : Space) (f : Nat) (t : Id) (name : String) (props : List Field)
    (deny : Bool) (ed : List String) (im : List Impl)
    (hg : σ.get t = some ⟨.struct name props deny none, ed, im⟩)
    (hfl : hasFlatten props = false) (hall : ∀ p ∈ props, hasDefaultAttr p = true) :
    dflt x σ (f + 1) t = deStruct x σ (f + 1) props deny (.obj []) := by
  have hk : ([] : List (String × Json)).any (fun kv => !(props.any (fun p => p.wire == kv.1))) = false := rfl
  rw [deStruct_obj x σ f props deny [] hfl hk]
  simp only [dflt, hg]
  congr 1
  apply C18.mapM'_congr
  intro p hp
  have := hall p hp
  unfold memberDe hasDefaultAttr at *
  simp only [Json.lookup]
  cases hst : p.state <;> simp_all <;> rfl

theorem default_same_build (x : Ext) (σ : Space) (f : Nat) (props : List Field)
    (sl : List (String × Builder.Slot)) (fs : List (String × Val))
    (hfl : hasFlatten props = false) (hall : ∀ p ∈ props, hasDefaultAttr p = true)
    (h : Builder.slots x σ f (fun _ => none) props = .ok sl) (hb : Builder.build sl = .ok fs) :
    deStruct x σ (f + 1) props false (.obj []) = .ok (.struct fs) := by
  have := C18.build_eq_de x σ f (fun _ => none) props [] sl hfl h (by
    intro p hp
    refine Or.inr ⟨rfl, rfl, ?_⟩
    intro hreq
    have := hall p hp
    unfold hasDefaultAttr at this
    cases hst : p.state <;> simp_all)
  rw [hb] at this
  exact this

/-- **C06 default_same (the function itself)**: the default function of a property — generic or
    custom — returns exactly the value the three consumers are modelled to use (`de d`) -/
theorem default_fn_value (x : Ext) (σ : Space) (n m : Nat) (t : Id) (d : Json) (k : DKind)
    (hv : validateValue x σ (n + 1) t d = .ok k) (hw : WFDefault x σ (n + 1) t d = true)
    (hs : hasDefault σ t (some d) = .dflt d) :
    fnValue x σ (m + 1) t (defaultFn x σ (n + 1) t d) = de x σ (m + 1) t d := by
  obtain ⟨e, ho, _, hr⟩ := good_all x σ (n + 1) t d k hv hw
  cases hg : σ.get t with
  | none => simp [validateValue, hg] at hv
  | some ent =>
    obtain ⟨det, ed, im⟩ := ent
    cases det
    case unit =>
      simp only [validateValue, hg] at hv
      cases d <;> simp at hv
      simp [hasDefault, hg] at hs
    case boolean =>
      simp only [validateValue, hg] at hv
      cases d <;> simp at hv
      rename_i b
      cases b
      · simp [hasDefault, hg] at hs
      · simp [defaultFn, hg, fnValue, de]
    case integer name =>
      cases hrt : rtyOfName name with
      | none => simp [WFDefault, hg, hrt] at hw
      | some r =>
        obtain ⟨v, _, _, hde, _, hfn⟩ := generic_default_reaches x σ n m t d k name ed im r hg hrt hv
        have hdf : defaultFn x σ (n + 1) t d = defaultFn x σ n t d := by simp [defaultFn, hg]
        rw [hdf, hde, hfn]
    all_goals (
      have : defaultFn x σ (n + 1) t d = .custom e := by simp [defaultFn, hg, ho]
      rw [this]
      exact (hr (m + 1)).1)

end TypifyModel.C06

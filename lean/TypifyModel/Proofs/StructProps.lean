import TypifyModel.Model.StructProps
/-! What the state selection of `structs.rs` (`struct_property`, `has_default`; model `StructProps.propState`, tied by the M0
    lattice of `./check C06`) guarantees, for every kind of member type and every default:

    * `optional_member_never_required` (C02: no optional member becomes mandatory) and `required_member_is_required`;
    * `bare_default_agrees_with_schema` (C06): when the schema gives a default and typify answers with serde's bare `default`,
      the member's type is one whose `Default::default()` IS the schema's value (`null`, `[]`, `{}`, `false`, `0`, `""`);
    * `dflt_keeps_value`: a `Default(value)` state carries the schema's default unchanged;
    * `wrapped_iff_nothing_to_fall_back_on` (C03: only members with schema or intrinsic defaults may be added): the member's type
      is wrapped in `Option` exactly when the member is not required, its schema has no default and its type has no intrinsic one. -/
namespace TypifyModel.StructProps
open TypifyModel

theorem required_member_is_required (k : Kind) (d : Option Json) : propState true k d = (.required, false) := by
  simp [propState]

theorem hasDefault_dflt {k : Kind} {d : Option Json} {v : Json} (h : hasDefault k d = .dflt v) : d = some v := by
  unfold hasDefault at h
  split at h <;> (try (simp at h; done))
  · split at h <;> simp at h; subst h; rfl
  · split at h <;> simp at h; subst h; rfl
  · simp at h; subst h; rfl

/-- **no optional member becomes mandatory** -/
theorem optional_member_never_required (k : Kind) (d : Option Json) :
    ∀ w, propState false k d ≠ (.required, w) := by
  intro w h
  unfold propState at h
  simp only [Bool.false_eq_true, if_false] at h
  split at h <;> simp at h
  rename_i other hne
  rcases h with ⟨h1, _⟩
  exact hne h1

/-- a `Default(value)` state carries the schema's default unchanged -/
theorem dflt_keeps_value (r : Bool) (k : Kind) (d : Option Json) (v : Json) (w : Bool)
    (h : propState r k d = (.dflt v, w)) : d = some v ∧ w = false ∧ r = false := by
  unfold propState at h
  cases r with
  | true => simp at h
  | false =>
    simp only [Bool.false_eq_true, if_false] at h
    split at h
    · simp at h
    · rename_i other hne
      simp only [Prod.mk.injEq] at h
      exact ⟨hasDefault_dflt h.1, h.2.symm, rfl⟩

theorem hasDefault_optional_some {k : Kind} {v : Json} (h : hasDefault k (some v) = .optional) :
    ∃ z, intrinsic k = some z ∧ sameValue v z = true := by
  unfold hasDefault at h
  split at h <;> (try (simp at h; done))
  all_goals (try (rename_i heq; simp at heq; done))
  · rename_i heq; simp only [Option.some.injEq] at heq; subst heq; exact ⟨.null, rfl, rfl⟩
  · rename_i heq; simp only [Option.some.injEq] at heq; subst heq; exact ⟨.null, rfl, rfl⟩
  · rename_i heq; simp only [Option.some.injEq] at heq; subst heq; exact ⟨.arr [], rfl, rfl⟩
  · rename_i heq; simp only [Option.some.injEq] at heq; subst heq; exact ⟨.obj [], rfl, rfl⟩
  · rename_i heq; simp only [Option.some.injEq] at heq; subst heq; exact ⟨.bool false, rfl, rfl⟩
  · rename_i w heq
    simp only [Option.some.injEq] at heq; subst heq
    split at h
    · rename_i hz
      refine ⟨.int 0, rfl, ?_⟩
      cases v <;> simp [isZero] at hz <;> simp [sameValue, hz]
    · simp at h
  · rename_i s heq
    simp only [Option.some.injEq] at heq; subst heq
    split at h
    · rename_i he
      refine ⟨.str "", rfl, ?_⟩
      have : s = "" := by simpa [String.isEmpty_iff] using he
      subst this; rfl
    · simp at h

/-- **the bare `default` is used only where it reproduces the schema's default** -/
theorem bare_default_agrees_with_schema (k : Kind) (v : Json) (w : Bool)
    (h : propState false k (some v) = (.optional, w)) :
    w = false ∧ ∃ z, intrinsic k = some z ∧ sameValue v z = true := by
  unfold propState at h
  simp only [Bool.false_eq_true, if_false] at h
  split at h
  · rename_i hreq
    -- `has_default` never answers `Required` when a default is given
    exfalso
    unfold hasDefault at hreq
    split at hreq <;> (try (simp at hreq; done))
    all_goals (try (rename_i heq; simp at heq; done))
    · split at hreq <;> simp at hreq
    · split at hreq <;> simp at hreq
  · rename_i other hne
    simp only [Prod.mk.injEq] at h
    obtain ⟨h1, h2⟩ := h
    exact ⟨h2.symm, hasDefault_optional_some h1⟩

/-- **`Option` wrapping happens exactly when nothing else stands for the absent member** -/
theorem wrapped_iff_nothing_to_fall_back_on (k : Kind) (d : Option Json) :
    (propState false k d).2 = true ↔ (d = none ∧ k ≠ .option ∧ k ≠ .vec ∧ k ≠ .map ∧ k ≠ .unit) := by
  unfold propState
  simp only [Bool.false_eq_true, if_false]
  cases d with
  | none => cases k <;> simp [hasDefault]
  | some v =>
    constructor
    · intro h
      split at h
      · rename_i hreq
        exfalso
        unfold hasDefault at hreq
        split at hreq <;> (try (simp at hreq; done))
        all_goals (try (rename_i heq; simp at heq; done))
        · split at hreq <;> simp at hreq
        · split at hreq <;> simp at hreq
      · simp at h
    · intro h; simp at h

/-- the hypotheses are met: a vector member with `default: []`, an integer member with `default: 0.0` -/
example : propState false .vec (some (.arr [])) = (.optional, false) ∧ propState false .integer (some (.flt 0 1)) = (.optional, false) ∧
          propState false .string none = (.optional, true) ∧ propState false .map (some (.obj [("k", .int 1)])) = (.dflt (.obj [("k", .int 1)]), false) := by
  refine ⟨by rfl, by rfl, by rfl, by rfl⟩

end TypifyModel.StructProps

import TypifyModel.Proofs.Lemmas.ConvAccepts3
/-! # C02 — every schema-valid JSON instance deserializes into the generated type

`conv_accepts`: ∀ IR σ, ∀ documents, ∀ schemas S, ∀ types τ, ∀ JSON instances v: if every
definition is read faithfully by its registered type (`AllConv`), τ is a faithful reading of S
(`convB`, an executable relation with one arm per construct) and v is valid under S, then the
model of the generated `Deserialize` does **not reject** v — for every fuel. (`de` answers
`fuel`/`unsupported` only as non-verdicts; with the fuel the driver uses it answers `ok`.)
Recursive `$ref`s need no guardedness condition: the induction is on the validity fuel.

The remaining link — that typify's `convert_schema` establishes `convB` — is discharged per
schema by running `convB` on the real (schema, IR dump) pair (translation validation in
`./check C02`); the ∀-instances guarantee for that schema is then exactly this theorem. -/
namespace TypifyModel.C02
open TypifyModel TypifyModel.Serde TypifyModel.Validate TypifyModel.Conv

variable (x : Serde.Ext) (vx : Validate.Ext) (σ : Space) (d : Doc)

/-- the nullable idioms: either the instance is valid under the inner schema, or under `null` -/
theorem nullable_accepts {rec : Schema → Id → Bool} {m : Nat} (hrec : Hrec x vx σ d rec (m + 1))
    {s' : Schema} {t t' : Id} {ed : List String} {im : List Impl} {v : Json}
    (hget : σ.get t = some ⟨.option t', ed, im⟩) (hb : rec s' t' = true)
    (hv : valid vx d m s' v = some true ∨ valid vx d m .null v = some true) (f : Nat) :
    NR (de x σ (f + 1) t v) := by
  rcases hv with hv | hv
  · exact de_option_NR' x σ hget (hrec m (by omega) s' t' v hb hv f)
  · cases m with
    | zero => simp [valid] at hv
    | succ m' =>
      simp only [valid, Option.some.injEq] at hv
      cases v <;> simp at hv
      simp [de, hget, NR]

theorem convD_accepts (hreg : ∀ p s, x.regex p s = vx.regex p s)
    {rec : Schema → Id → Bool} {m : Nat} (hrec : Hrec x vx σ d rec (m + 1))
    {s : Schema} {t : Id} {det : Details} {ed : List String} {im : List Impl} {v : Json}
    (hget : σ.get t = some ⟨det, ed, im⟩)
    (hb : convD rec σ s det = true) (hv : valid vx d (m + 1) s v = some true) :
    ∀ fd, NR (de x σ fd t v) := by
  intro fd
  cases fd with
  | zero => simp [de, NR]
  | succ f =>
    unfold convD at hb
    split at hb
    · -- any / jsonValue
      simp [de, hget, NR]
    · -- null / unit
      simp only [valid, Option.some.injEq] at hv
      cases v <;> simp at hv
      simp [de, hget, NR]
    · -- boolean
      simp only [valid, Option.some.injEq] at hv
      cases v <;> simp at hv
      simp [de, hget, NR]
    · -- number / float
      simp only [valid, Option.some.injEq] at hv
      cases v <;> simp at hv <;> simp [de, hget, NR]
    · -- integer
      rename_i lo hi name
      simp only [valid, Option.some.injEq] at hv
      cases v <;> simp at hv
      rename_i k
      simp only [de, hget]
      split at hb
      · rename_i ty hty
        simp only [Bool.and_eq_true, decide_eq_true_eq] at hb
        rw [hty]
        simp only
        have : ty.lo ≤ k ∧ k ≤ ty.hi := by omega
        simp [this, NR]
      · simp at hb
    · -- plain string
      simp only [valid, Option.some.injEq] at hv
      cases v <;> simp at hv
      simp [de, hget, NR]
    · -- constrained string newtype
      rename_i mn mx pat n' inner tmx tmn tpat dflt'
      simp only [Bool.and_eq_true] at hb
      obtain ⟨hinner, himp⟩ := hb
      split at hinner
      · rename_i ed' im' hgi
        simp only [valid, Option.some.injEq] at hv
        cases v <;> simp at hv
        rename_i w
        simp only [de, hget]
        cases f with
        | zero => simp [de, NR]
        | succ f' =>
          simp only [de, hgi]
          have hcs : checkString x tmx tmn tpat w = true := by
            simp only [strImplied, Bool.and_eq_true] at himp
            obtain ⟨⟨h1, h2⟩, h3⟩ := himp
            obtain ⟨⟨v1, v2⟩, v3⟩ := hv
            simp only [checkString, Bool.and_eq_true, charCount]
            simp only [strLen] at v1 v2
            refine ⟨⟨?_, ?_⟩, ?_⟩
            · cases tmx with
              | none => rfl
              | some tm =>
                simp only at h1 ⊢
                cases mx with
                | none => simp at h1
                | some sm =>
                  simp at h1
                  have hv2 := of_decide_eq_true v2
                  exact decide_eq_true (by omega)
            · cases tmn with
              | none => rfl
              | some tm =>
                simp only at h2 ⊢
                cases mn with
                | none => simp at h2
                | some sm =>
                  simp at h2
                  have hv1 := of_decide_eq_true v1
                  exact decide_eq_true (by omega)
            · cases tpat with
              | none => rfl
              | some tp =>
                simp only at h3 ⊢
                cases pat with
                | none => simp at h3
                | some sp =>
                  simp only [beq_iff_eq] at h3; subst h3
                  simp only at v3
                  rw [hreg]; exact v3
          simp [hcs, NR]
      · simp at hinner
    · -- string enum → simple enum
      rename_i vs n' variants deny dflt' bes
      simp only [Bool.and_eq_true] at hb
      obtain ⟨hsimple, hvs⟩ := hb
      simp only [valid, Option.some.injEq] at hv
      obtain ⟨e, hem, heq⟩ := List.any_eq_true.mp hv
      have he := (List.all_eq_true.mp hvs) e hem
      cases e <;> simp at he
      rename_i w
      have hvw : v = .str w := beq_str_left heq
      subst hvw
      obtain ⟨vr, hvrm, hvrw⟩ := he
      simp only [de, hget]
      cases hfi : variants.findIdx? (fun vr => vr.wire == w) with
      | none =>
        have := List.findIdx?_eq_none_iff.mp hfi vr hvrm
        simp [hvrw] at this
      | some i =>
        simp only
        have hlt := (List.findIdx?_eq_some_iff_getElem.mp hfi).1
        have hvi : variants[i]? = some variants[i] := List.getElem?_eq_getElem hlt
        rw [hvi]
        have hs := (List.all_eq_true.mp hsimple) variants[i] (List.getElem_mem hlt)
        simp only [isSimple] at hs
        cases hvv : variants[i] with
        | mk raw ident det' =>
          rw [hvv] at hs
          cases det' <;> simp at hs
          simp [NR]
    · -- array with minItems = maxItems = n → [T; n]
      rename_i items mn mx uq t' n
      simp only [Bool.and_eq_true, decide_eq_true_eq] at hb
      obtain ⟨⟨h1, h2⟩, hb⟩ := hb
      simp only [valid] at hv
      cases v with
      | arr xs =>
        simp only at hv
        obtain ⟨hlen, hall⟩ := and3_true hv
        simp only [Option.some.injEq, Bool.and_eq_true, decide_eq_true_eq] at hlen
        have hmem := allJ_mem hall
        simp only [de, hget]
        have hl : xs.length = n := by omega
        rw [if_pos hl]
        have := mapM'_NR (g := de x σ f t') (l := xs) (fun j hj => hrec m (by omega) items t' j hb (hmem j hj) f)
        revert this; generalize mapM' (de x σ f t') xs = r; intro hr
        cases r with
        | ok vs => simp [NR]
        | error e => simp only; intro hc; simp only [Except.error.injEq] at hc; subst hc; exact hr rfl
      | _ => simp at hv
    · -- object with only additionalProperties → map with string keys
      rename_i req sv k vt
      simp only [Bool.and_eq_true] at hb
      obtain ⟨hk, hb⟩ := hb
      split at hk
      · rename_i ed' im' hgk
        cases v with
        | obj kvs =>
          simp only [valid] at hv
          obtain ⟨_, hmem⟩ := and3_true hv
          simp only [de, hget]
          have : NR (mapM' (fun (kv : String × Json) =>
              match de x σ f k (.str kv.1), de x σ f vt kv.2 with
              | .ok (.str _), .ok b => (.ok (kv.1, b) : Except E (String × Val))
              | .ok (.variant _ _), .ok b => .ok (kv.1, b)
              | .ok _, .ok _ => .error .unsupported
              | .error e, _ => .error e
              | _, .error e => .error e) kvs) := by
            apply mapM'_NR
            intro kv hkv
            have hval : NR (de x σ f vt kv.2) := by
              exact hrec m (by omega) sv vt kv.2 hb (membersV_additional hmem kv hkv) f
            cases f with
            | zero => simp [de, NR]
            | succ f' =>
              have hkey : de x σ (f' + 1) k (.str kv.1) = .ok (.str kv.1) := by simp [de, hgk]
              rw [hkey]
              revert hval; generalize de x σ (f' + 1) vt kv.2 = r; intro hr
              cases r with
              | ok b => simp [NR]
              | error e => simp only; intro hc; simp only [Except.error.injEq] at hc; subst hc; exact hr rfl
          revert this; generalize mapM' _ kvs = r; intro hr
          cases r with
          | ok es => simp [NR]
          | error e => simp only; intro hc; simp only [Except.error.injEq] at hc; subst hc; exact hr rfl
        | _ => simp [valid] at hv
      · simp at hk
    · -- array → Vec
      rename_i items mn mx uq t'
      simp only [valid] at hv
      cases v with
      | arr xs =>
        simp only at hv
        obtain ⟨_, hall⟩ := and3_true hv
        have hmem := allJ_mem hall
        simp only [de, hget]
        have := mapM'_NR (g := de x σ f t') (l := xs) (fun j hj => hrec m (by omega) items t' j hb (hmem j hj) f)
        revert this; generalize mapM' (de x σ f t') xs = r; intro hr
        cases r with
        | ok vs => simp [NR]
        | error e => simp only; intro hc; simp only [Except.error.injEq] at hc; subst hc; exact hr rfl
      | _ => simp at hv
    · -- array → Set (rendered as Vec)
      rename_i items mn mx uq t'
      simp only [valid] at hv
      cases v with
      | arr xs =>
        simp only at hv
        obtain ⟨_, hall⟩ := and3_true hv
        have hmem := allJ_mem hall
        simp only [de, hget]
        have := mapM'_NR (g := de x σ f t') (l := xs) (fun j hj => hrec m (by omega) items t' j hb (hmem j hj) f)
        revert this; generalize mapM' (de x σ f t') xs = r; intro hr
        cases r with
        | ok vs => simp [NR]
        | error e => simp only; intro hc; simp only [Except.error.injEq] at hc; subst hc; exact hr rfl
      | _ => simp at hv
    · -- tuple
      rename_i items ts
      simp only [valid] at hv
      cases v with
      | arr xs =>
        simp only at hv
        simp only [de, hget]
        have := tuple_accepts x vx σ d (m := m) (by omega) hrec hb hv f
        revert this; generalize zipM (de x σ f) ts xs = r; intro hr
        cases r with
        | ok vs => simp [NR]
        | error e => simp only; intro hc; simp only [Except.error.injEq] at hc; subst hc; exact hr rfl
      | _ => simp at hv
    · -- object → struct
      rename_i props req addl n' fields deny dflt'
      cases v with
      | obj kvs =>
        simp only [de, hget]
        exact struct_accepts x vx σ d (m := m) (by omega) hrec hb hv f
      | _ => simp [valid] at hv
    · -- oneOf [s', null] → Option
      exact nullable_accepts x vx σ d hrec hget hb (by
        simp only [valid] at hv
        generalize hc : countV _ _ = oc at hv
        cases oc with
        | none => simp at hv
        | some c =>
          simp at hv; subst hv
          have := countV_pos hc (by omega)
          obtain ⟨k, s0, hk, hs0⟩ := this
          cases k with
          | zero => simp at hk; subst hk; exact Or.inl hs0
          | succ k' =>
            cases k' with
            | zero => simp at hk; subst hk; exact Or.inr hs0
            | succ _ => simp at hk) f
    · exact nullable_accepts x vx σ d hrec hget hb (by
        simp only [valid] at hv
        generalize hc : countV _ _ = oc at hv
        cases oc with
        | none => simp at hv
        | some c =>
          simp at hv; subst hv
          have := countV_pos hc (by omega)
          obtain ⟨k, s0, hk, hs0⟩ := this
          cases k with
          | zero => simp at hk; subst hk; exact Or.inr hs0
          | succ k' =>
            cases k' with
            | zero => simp at hk; subst hk; exact Or.inl hs0
            | succ _ => simp at hk) f
    · exact nullable_accepts x vx σ d hrec hget hb (by
        simp only [valid] at hv
        generalize hc : countV _ _ = oc at hv
        cases oc with
        | none => simp at hv
        | some c =>
          simp at hv
          have := countV_pos hc hv
          obtain ⟨k, s0, hk, hs0⟩ := this
          cases k with
          | zero => simp at hk; subst hk; exact Or.inl hs0
          | succ k' =>
            cases k' with
            | zero => simp at hk; subst hk; exact Or.inr hs0
            | succ _ => simp at hk) f
    · exact nullable_accepts x vx σ d hrec hget hb (by
        simp only [valid] at hv
        generalize hc : countV _ _ = oc at hv
        cases oc with
        | none => simp at hv
        | some c =>
          simp at hv
          have := countV_pos hc hv
          obtain ⟨k, s0, hk, hs0⟩ := this
          cases k with
          | zero => simp at hk; subst hk; exact Or.inr hs0
          | succ k' =>
            cases k' with
            | zero => simp at hk; subst hk; exact Or.inl hs0
            | succ _ => simp at hk) f
    · -- oneOf → externally tagged enum
      simp only [Bool.and_eq_true] at hb
      simp only [valid] at hv
      generalize hc : countV _ _ = oc at hv
      cases oc with
      | none => simp at hv
      | some c =>
        simp at hv; subst hv
        exact ext_accepts x vx σ d (m := m) (by omega) hrec hget hb.1 hb.2 hc (by omega) f
    · -- anyOf → externally tagged enum
      simp only [Bool.and_eq_true] at hb
      simp only [valid] at hv
      generalize hc : countV _ _ = oc at hv
      cases oc with
      | none => simp at hv
      | some c =>
        simp at hv
        exact ext_accepts x vx σ d (m := m) (by omega) hrec hget hb.1 hb.2 hc hv f
    · -- oneOf → internally tagged enum
      simp only [Bool.and_eq_true] at hb
      simp only [valid] at hv
      generalize hc : countV _ _ = oc at hv
      cases oc with
      | none => simp at hv
      | some c =>
        simp at hv; subst hv
        exact int_accepts x vx σ d (m := m) (by omega) hrec hget hb.1 hb.2 hc (by omega) f
    · -- anyOf → internally tagged enum
      simp only [Bool.and_eq_true] at hb
      simp only [valid] at hv
      generalize hc : countV _ _ = oc at hv
      cases oc with
      | none => simp at hv
      | some c =>
        simp at hv
        exact int_accepts x vx σ d (m := m) (by omega) hrec hget hb.1 hb.2 hc hv f
    · -- oneOf → adjacently tagged enum
      simp only [Bool.and_eq_true] at hb
      simp only [valid] at hv
      generalize hc : countV _ _ = oc at hv
      cases oc with
      | none => simp at hv
      | some c =>
        simp at hv; subst hv
        exact adj_accepts x vx σ d (m := m) (by omega) hrec hget hb.1 hb.2 hc (by omega) f
    · -- anyOf → adjacently tagged enum
      simp only [Bool.and_eq_true] at hb
      simp only [valid] at hv
      generalize hc : countV _ _ = oc at hv
      cases oc with
      | none => simp at hv
      | some c =>
        simp at hv
        exact adj_accepts x vx σ d (m := m) (by omega) hrec hget hb.1 hb.2 hc hv f
    · -- oneOf → untagged enum
      simp only [valid] at hv
      generalize hc : countV _ _ = oc at hv
      cases oc with
      | none => simp at hv
      | some c =>
        simp at hv; subst hv
        simp only [de, hget]
        exact variants_accept x vx σ d (m := m) (by omega) hrec hb hc (by omega) f
    · -- anyOf → untagged enum
      simp only [valid] at hv
      generalize hc : countV _ _ = oc at hv
      cases oc with
      | none => simp at hv
      | some c =>
        simp at hv
        simp only [de, hget]
        exact variants_accept x vx σ d (m := m) (by omega) hrec hb hc hv f
    · simp at hb

/-- **C02 (model level), all instances**: a faithful reading never rejects a schema-valid instance. -/
theorem conv_accepts (hreg : ∀ p s, x.regex p s = vx.regex p s) (rid : String → Option Id)
    (hall : AllConv σ rid d) :
    ∀ (fv fc : Nat) (s : Schema) (t : Id) (v : Json),
      convB σ rid fc s t = true → valid vx d fv s v = some true → ∀ fd, NR (de x σ fd t v) := by
  intro fv
  induction fv using Nat.strongRecOn with
  | _ fv ihv =>
    intro fc
    induction fc with
    | zero => intro s t v hc; simp [convB] at hc
    | succ fc ihc =>
      intro s t v hc hv fd
      cases fv with
      | zero => simp [valid] at hv
      | succ m =>
        have hrec : Hrec x vx σ d (convB σ rid fc) (m + 1) := by
          intro m' hm' s' t' v' hc' hv' fd'
          exact ihv m' hm' fc s' t' v' hc' hv' fd'
        -- `$ref`: unfold the definition, one unit of validity fuel
        by_cases href : ∃ k, s = .ref k
        · obtain ⟨k, rfl⟩ := href
          simp only [convB, Bool.or_eq_true, beq_iff_eq] at hc
          rcases hc with hc | hc
          · simp only [valid] at hv
            cases hg : d.get k with
            | none => rw [hg] at hv; simp at hv
            | some s' =>
              rw [hg] at hv
              obtain ⟨t', fc', hr, hc'⟩ := hall k s' hg
              rw [hc] at hr
              simp only [Option.some.injEq] at hr; subst hr
              exact ihv m (by omega) fc' s' t v hc' hv fd
          · split at hc
            · rename_i t' ed im hg
              have hsub := ihc (.ref k) t' v hc hv
              cases fd with
              | zero => simp [de, NR]
              | succ f => simp only [de, hg]; exact hsub f
            · rename_i nm inner dfl ed im hg
              have hsub := ihc (.ref k) inner v hc hv
              cases fd with
              | zero => simp [de, NR]
              | succ f =>
                simp only [de, hg]
                have := hsub f
                revert this; generalize de x σ f inner v = r; intro hr
                cases r with
                | ok a => simp [NR]
                | error e => simp only; intro hcc; simp only [Except.error.injEq] at hcc; subst hcc; exact hr rfl
            · simp at hc
        · have hc2 : (match σ.get t with
              | none => false
              | some ent =>
                match ent.details with
                | .newtype _ inner .none _ => convB σ rid fc s inner
                | .box t' => convB σ rid fc s t'
                | det => convD (convB σ rid fc) σ s det) = true := by
            cases s <;> first | (exact absurd ⟨_, rfl⟩ href) | (simp only [convB] at hc; exact hc)
          cases hg : σ.get t with
          | none => rw [hg] at hc2; simp at hc2
          | some ent =>
            rw [hg] at hc2
            obtain ⟨det, ed, im⟩ := ent
            simp only at hc2
            by_cases hnt : ∃ n inner dfl, det = .newtype n inner .none dfl
            · obtain ⟨n, inner, dfl, rfl⟩ := hnt
              simp only at hc2
              have hsub := ihc s inner v hc2 hv
              cases fd with
              | zero => simp [de, NR]
              | succ f =>
                simp only [de, hg]
                have := hsub f
                revert this; generalize de x σ f inner v = r; intro hr
                cases r with
                | ok a => simp [NR]
                | error e => simp only; intro hcc; simp only [Except.error.injEq] at hcc; subst hcc; exact hr rfl
            · by_cases hbx : ∃ t', det = .box t'
              · obtain ⟨t', rfl⟩ := hbx
                simp only at hc2
                have hsub := ihc s t' v hc2 hv
                cases fd with
                | zero => simp [de, NR]
                | succ f => simp only [de, hg]; exact hsub f
              · have hc3 : convD (convB σ rid fc) σ s det = true := by
                  cases det with
                  | newtype n inner c dfl =>
                    cases c with
                    | none => exact absurd ⟨n, inner, dfl, rfl⟩ hnt
                    | _ => exact hc2
                  | box t' => exact absurd ⟨t', rfl⟩ hbx
                  | _ => exact hc2
                exact convD_accepts x vx σ d hreg hrec hg hc3 hv fd

/-! non-vacuity: a recursive definition `Node = {next?: Node, v: integer 0..255}` read by a struct
    with an optional boxed self reference -/
def exDoc : Doc := { defs := [("Node", .object [("next", .ref "Node"), ("v", .integer (some 0) (some 255))] ["v"] .open_)] }
def exSpace : Space := { entries := [
  (1, ⟨.struct "Node" [⟨"next", .none, .optional, 3⟩, ⟨"v", .none, .required, 2⟩] false none, [], []⟩),
  (2, ⟨.integer "u8", [], []⟩),
  (3, ⟨.option 4, [], []⟩),
  (4, ⟨.box 1, [], []⟩)] }
def exRid (k : String) : Option Id := if k = "Node" then some 1 else none

example : convB exSpace exRid 5 (.object [("next", .ref "Node"), ("v", .integer (some 0) (some 255))] ["v"] .open_) 1 = true := by
  rfl
example : valid ⟨fun _ _ => true⟩ exDoc 6 (.ref "Node") (.obj [("next", .obj [("v", .int 3)]), ("v", .int 7)]) = some true := by
  rfl
example : de ⟨fun _ _ => true⟩ exSpace 9 1 (.obj [("next", .obj [("v", .int 3)]), ("v", .int 7)]) =
    .ok (.struct [("next", .some (.struct [("next", .none), ("v", .int 3)])), ("v", .int 7)]) := by
  rfl

end TypifyModel.C02

import TypifyModel.Proofs.C16
/-! Kernel-checked refutations of the full C16 statements on the current tree (known findings
    C16-readd-ref-types, C16-def-key-collision, C16-def-inline-collision, C16-inline-name-capture).
    Every witness history was reproduced against the real code (KNOWN_FINDINGS.json, replayed by
    `./check C16` on every run).  This file is *expected* to stop compiling when a finding is repaired
    in /repo and the model follows. -/
set_option autoImplicit false
namespace TypifyModel.C16
open TypifyModel TypifyModel.Space
open TypifyModel.Names (Str)

def finalOf (r : R (State × List (Option Nat))) : State :=
  match r with
  | .ok (σ, _) => σ
  | .fail _ => Space.init

def resultsOf (r : R (State × List (Option Nat))) : List (Option Nat) :=
  match r with
  | .ok (_, rs) => rs
  | .fail _ => []

/-- (a) the same definition key in two `add_ref_types` calls -/
def histReadd : List Call :=
  [.refTypes [("A".toList, .str none)], .refTypes [("A".toList, .str none)]]

set_option maxRecDepth 100000 in
theorem histReadd_ok : run 3 histReadd Space.init
    = .ok (finalOf (run 3 histReadd Space.init), resultsOf (run 3 histReadd Space.init)) := by decide

set_option maxRecDepth 100000 in
/-- C16-readd-ref-types: `convert_ref_type` inserts the second `A` without looking at `name_to_id`:
    ids 1 and 3 both hold `struct A(String)` -/
theorem no_dup_defs_full_false : ¬ no_dup_defs_full := by
  intro h
  have hnd := h 3 histReadd _ _ histReadd_ok
  have := hnd 1 3 (.newtype "A".toList 2) (.newtype "A".toList 2) "A".toList (by decide) (by decide) rfl rfl
  exact absurd this (by decide)

set_option maxRecDepth 100000 in
/-- the hypothesis that fails is `DistinctBatches` (at the second call) -/
example : ¬ HistOK 3 histReadd Space.init := by decide

/-- full statement: adding the same batch again adds no definitions -/
def readd_batch_full : Prop :=
  ∀ (fuel : Nat) (defs : List (Str × Sch)) (σ σ1 σ2 : State), Inv σ → addRefTypes fuel defs σ = .ok σ1 →
    addRefTypes fuel defs σ1 = .ok σ2 → σ2.nextId = σ1.nextId

def stateOf (r : R State) : State :=
  match r with
  | .ok σ => σ
  | .fail _ => Space.init

set_option maxRecDepth 100000 in
/-- C16-readd-ref-types, the re-adding clause: the second call allocates a new id -/
theorem readd_batch_full_false : ¬ readd_batch_full := by
  intro h
  have := h 3 [("A".toList, .str none)] Space.init
    (stateOf (addRefTypes 3 [("A".toList, .str none)] Space.init))
    (stateOf (addRefTypes 3 [("A".toList, .str none)]
      (stateOf (addRefTypes 3 [("A".toList, .str none)] Space.init))))
    inv_init (by decide) (by decide)
  exact absurd this (by decide)

/-- (b) two keys of one batch that sanitise to one name (C08-def-collision seen from C16) -/
def histKeys : List Call := [.refTypes [("a-b".toList, .str none), ("a_b".toList, .int none)]]

set_option maxRecDepth 100000 in
theorem histKeys_ok : run 3 histKeys Space.init
    = .ok (finalOf (run 3 histKeys Space.init), resultsOf (run 3 histKeys Space.init)) := by decide

set_option maxRecDepth 100000 in
/-- C16-def-key-collision: ids 1 and 2 are both named `AB` -/
theorem no_dup_defs_keys : ¬ NoDupDefs (finalOf (run 3 histKeys Space.init)) := by
  intro hnd
  have := hnd 1 2 (.newtype "AB".toList 3) (.newtype "AB".toList 4) "AB".toList (by decide) (by decide) rfl rfl
  exact absurd this (by decide)

set_option maxRecDepth 100000 in
/-- the hypothesis that fails is `NoNameCollision` (its `Nodup` half) -/
example : ¬ NoNameCollision 3 (callDefs (.refTypes [("a-b".toList, .str none), ("a_b".toList, .int none)])) := by
  decide

/-- (c) an inline type that takes the name of its own definition -/
def histInline : List Call :=
  [.refTypes [("A".toList, .obj none [("p".toList,
      .obj (some "A".toList) [("q".toList, .str none)] ["q".toList] false)] ["p".toList] false)]]

set_option maxRecDepth 100000 in
theorem histInline_ok : run 4 histInline Space.init
    = .ok (finalOf (run 4 histInline Space.init), resultsOf (run 4 histInline Space.init)) := by decide

set_option maxRecDepth 100000 in
/-- C16-def-inline-collision: the inline struct `A {q}` (id 3) and the definition `A {p}` (id 1) -/
theorem no_dup_defs_inline : ¬ NoDupDefs (finalOf (run 4 histInline Space.init)) := by
  intro hnd
  have := hnd 1 3
    (.struct "A".toList [⟨"p".toList, none, true, 3⟩] false)
    (.struct "A".toList [⟨"q".toList, none, true, 2⟩] false) "A".toList (by decide) (by decide) rfl rfl
  exact absurd this (by decide)

set_option maxRecDepth 100000 in
/-- the hypothesis that fails is `NoNameCollision` (a definition name among the assigned names) -/
example : ¬ HistOK 4 histInline Space.init := by decide

/-- (d) `assign_type` reuses BY NAME without comparing structure: of two inline types with one
    derived name the first wins, so the order of two calls decides what `T` is -/
def Details.fieldNames : Details → List Str
  | .struct _ ps _ => ps.map (·.name)
  | _ => []

/-- full statement (a consequence of order-independence of the set of definitions): swapping two
    calls does not change the field names of the definition of any name -/
def perm_defs_full : Prop :=
  ∀ (fuel : Nat) (c1 c2 : Call) (σ12 σ21 : State) (rs rs' : List (Option Nat)),
    run fuel [c1, c2] Space.init = .ok (σ12, rs) → run fuel [c2, c1] Space.init = .ok (σ21, rs') →
    ∀ i j e1 e2 n, σ12.entry i = some e1 → σ21.entry j = some e2 → e1.name? = some n → e2.name? = some n →
      Details.fieldNames e1 = Details.fieldNames e2

def callTa : Call := .typeWithName (.obj (some "T".toList) [("a".toList, .str none)] ["a".toList] false) none
def callTb : Call := .typeWithName (.obj (some "T".toList) [("b".toList, .int none)] ["b".toList] false) none

set_option maxRecDepth 100000 in
theorem histTab_ok : run 4 [callTa, callTb] Space.init
    = .ok (finalOf (run 4 [callTa, callTb] Space.init), resultsOf (run 4 [callTa, callTb] Space.init)) := by decide

set_option maxRecDepth 100000 in
theorem histTba_ok : run 4 [callTb, callTa] Space.init
    = .ok (finalOf (run 4 [callTb, callTa] Space.init), resultsOf (run 4 [callTb, callTa] Space.init)) := by decide

set_option maxRecDepth 100000 in
/-- C16-inline-name-capture: `T` is `{a}` in one order and `{b}` in the other; the second call
    returns the id of the first type although its schema is different -/
theorem perm_defs_full_false : ¬ perm_defs_full := by
  intro h
  have := h 4 callTa callTb _ _ _ _ histTab_ok histTba_ok 2 2
    (.struct "T".toList [⟨"a".toList, none, true, 1⟩] false)
    (.struct "T".toList [⟨"b".toList, none, true, 1⟩] false) "T".toList (by decide) (by decide) rfl rfl
  exact absurd this (by decide)

set_option maxRecDepth 100000 in
/-- both calls return id 2 in either order -/
example : resultsOf (run 4 [callTa, callTb] Space.init) = [some 2, some 2] ∧
    resultsOf (run 4 [callTb, callTa] Space.init) = [some 2, some 2] := by decide

end TypifyModel.C16

import TypifyModel.Proofs.Lemmas.FrontendsLemmas
import TypifyModel.Generated.Frontends
/-! # C15 — macro, cargo subcommand and builder generate the same types

Property theorems only (helpers in `Proofs/Lemmas/FrontendsLemmas.lean`). They are stated over
`Generated/Frontends.lean` (table T7: the two `is_crate` predicates, the collection kind of every
`MacroSettings` field, the default impl set), which the translator regenerates from the source on
every run, and over `Model/Frontends.lean`, which the correspondence `c15` ties to the real
`cargo-typify` binary, to real `import_types!` expansions and to the real builder.

Generation is a function of `TypeSpaceSettings` × schema (`TypeSpace::new(&settings)` then
`add_root_schema`, `to_stream`), so "same items" reduces to "same settings": that is what
`cli_eq_builder` / `macro_eq_builder` establish, for every option assignment. -/
namespace TypifyModel.C15
open TypifyModel.Frontends TypifyModel.Generated

/-! ## Crate names: the regenerated predicates against Cargo's rule -/

/-- independent reading of Cargo's crate-name rule: ASCII letters, digits, `-`, `_` … -/
def validCrateChar (c : Char) : Bool := c.isAlphanum || c == '-' || c == '_'
/-- … and not empty -/
def validCrateName (s : List Char) : Bool := !s.isEmpty && s.all validCrateChar

theorem validCrateChar_ascii {c : Char} (h : validCrateChar c = true) : c.val < 128 := by
  simp only [validCrateChar, Char.isAlphanum, Bool.or_eq_true, beq_iff_eq] at h
  rcases h with ((h | h) | h) | h
  · exact isAlpha_ascii h
  · exact isDigit_ascii h
  · subst h; decide
  · subst h; decide

/-- on ASCII the CLI's `is_crate` character predicate (as the source has it now) is exactly
    Cargo's; beyond ASCII it follows Rust's Unicode tables (any `CharSem`) -/
theorem t7_cli_exact_ascii (cs : CharSem) (c : Char) (ha : c.val < 128) :
    cliIsCrateChar cs c = validCrateChar c := by
  simp only [cliIsCrateChar, validCrateChar, CharSem.isAlphanumeric, cs.alpha_ascii c ha,
    cs.num_ascii c ha, Char.isAlphanum]
    <;> (cases c.isAlpha <;> cases c.isDigit <;> cases (c == '-') <;> cases (c == '_') <;> rfl)

theorem t7_macro_exact_ascii (cs : CharSem) (c : Char) (ha : c.val < 128) :
    macroIsCrateChar cs c = validCrateChar c := by
  simp only [macroIsCrateChar, validCrateChar, CharSem.isAlphanumeric, cs.alpha_ascii c ha,
    cs.num_ascii c ha, Char.isAlphanum]
    <;> (cases c.isAlpha <;> cases c.isDigit <;> cases (c == '-') <;> cases (c == '_') <;> rfl)

/-- both front-ends accept exactly the same crate names (all of Unicode, every `CharSem`) -/
theorem cli_macro_same_names (cs : CharSem) (s : List Char) : cliIsCrate cs s = macroIsCrate cs s := by
  have hc : cliIsCrateChar cs = macroIsCrateChar cs := by
    funext c
    simp only [cliIsCrateChar, macroIsCrateChar]
    cases cs.isAlphanumeric c <;> cases (c == '-') <;> cases (c == '_') <;> rfl
  simp only [cliIsCrate, macroIsCrate, hc]

theorem cli_accepts_name (cs : CharSem) {s : List Char} (h : validCrateName s = true) :
    cliIsCrate cs s = true := by
  simp only [validCrateName, Bool.and_eq_true, List.all_eq_true] at h
  simp only [cliIsCrate, List.all_eq_true]
  first
    | exact fun c hc => (t7_cli_exact_ascii cs c (validCrateChar_ascii (h.2 c hc))).trans (h.2 c hc)
    | exact Bool.and_eq_true_iff.mpr ⟨h.1, List.all_eq_true.mpr fun c hc =>
        (t7_cli_exact_ascii cs c (validCrateChar_ascii (h.2 c hc))).trans (h.2 c hc)⟩

theorem macro_accepts_name (cs : CharSem) {s : List Char} (h : validCrateName s = true) :
    macroIsCrate cs s = true := by
  rw [← cli_macro_same_names]; exact cli_accepts_name cs h

theorem valid_name_no {d : Char} (hd : validCrateChar d = false) {s : List Char}
    (h : validCrateName s = true) : d ∉ s := by
  simp only [validCrateName, Bool.and_eq_true, List.all_eq_true] at h
  intro m
  rw [h.2 d m] at hd
  cases hd

/-! ## `--crate` specifiers -/

/-- **every valid `crate@version` is accepted** with exactly that name and version (`*`, `!` or a
    version `semver` accepts); `validVers` is any predicate, `cs` any Unicode table. The version
    text contains no `=` (semver's grammar has none). -/
theorem spec_accepts (cs : CharSem) (validVers : List Char → Bool) (c v : List Char) (cv : CrateVers)
    (hc : validCrateName c = true) (hv : CrateVers.parse validVers v = some cv) (hne : '=' ∉ v) :
    parseCrateSpec (cliIsCrate cs) validVers (c ++ '@' :: v) = some ⟨String.ofList c, cv, none⟩ := by
  have h1 : '=' ∉ c ++ '@' :: v := by
    intro m
    rcases List.mem_append.mp m with m | m
    · exact valid_name_no (d := '=') (by decide) hc m
    · rcases List.mem_cons.mp m with m | m
      · exact absurd m (by decide)
      · exact hne m
  have h2 : '@' ∉ c := valid_name_no (d := '@') (by decide) hc
  simp only [parseCrateSpec, splitFirst_none h1, splitFirst_append h2, cli_accepts_name cs hc, hv,
    Bool.not_true, Bool.false_eq_true, if_false]

/-- **every valid `rename=crate@version` is accepted** with exactly that rename, name, version -/
theorem spec_accepts_rename (cs : CharSem) (validVers : List Char → Bool) (r c v : List Char)
    (cv : CrateVers) (hr : validCrateName r = true) (hc : validCrateName c = true)
    (hv : CrateVers.parse validVers v = some cv) :
    parseCrateSpec (cliIsCrate cs) validVers (r ++ '=' :: (c ++ '@' :: v))
      = some ⟨String.ofList c, cv, some (String.ofList r)⟩ := by
  have h1 : '=' ∉ r := valid_name_no (d := '=') (by decide) hr
  have h2 : '@' ∉ c := valid_name_no (d := '@') (by decide) hc
  simp only [parseCrateSpec, splitFirst_append h1, splitFirst_append h2, cli_accepts_name cs hr,
    cli_accepts_name cs hc, hv, Bool.not_true, Bool.false_eq_true, if_false]

/-- a specifier without `@` is rejected (whatever `is_crate` is) -/
theorem spec_rejects (isCrate validVers : List Char → Bool) (s : List Char) (h : '@' ∉ s) :
    parseCrateSpec isCrate validVers s = none := by
  unfold parseCrateSpec
  cases hs : splitFirst '=' s with
  | none => simp only [splitFirst_none h]
  | some p =>
    obtain ⟨a, b⟩ := p
    obtain ⟨e, _⟩ := splitFirst_some hs
    have hb : '@' ∉ b := fun m => h (by rw [e]; simp [m])
    simp only [splitFirst_none hb]
    split <;> rfl

/-- nothing else is accepted: an accepted specifier has the shape `[rename=]name@version` with
    `is_crate` names and a parsable version, and is returned unchanged -/
theorem spec_sound (isCrate validVers : List Char → Bool) (s : List Char) (sp : CrateSpec)
    (h : parseCrateSpec isCrate validVers s = some sp) :
    ∃ c v, isCrate c = true ∧ CrateVers.parse validVers v = some sp.version ∧
      sp.name = String.ofList c ∧
      ((s = c ++ '@' :: v ∧ sp.rename = none) ∨
       ∃ r, isCrate r = true ∧ s = r ++ '=' :: (c ++ '@' :: v) ∧ sp.rename = some (String.ofList r)) := by
  unfold parseCrateSpec at h
  cases hs : splitFirst '=' s with
  | none =>
    rw [hs] at h
    simp only at h
    cases hs2 : splitFirst '@' s with
    | none => rw [hs2] at h; simp at h
    | some p =>
      obtain ⟨c, v⟩ := p
      rw [hs2] at h
      simp only at h
      by_cases hcr : isCrate c = true
      · simp only [hcr, Bool.not_true, Bool.false_eq_true, if_false] at h
        cases hp : CrateVers.parse validVers v with
        | none => rw [hp] at h; simp at h
        | some cv =>
          rw [hp] at h
          simp only [Option.some.injEq] at h
          subst h
          exact ⟨c, v, hcr, hp, rfl, Or.inl ⟨(splitFirst_some hs2).1, rfl⟩⟩
      · simp [hcr] at h
  | some p =>
    obtain ⟨r, rest⟩ := p
    rw [hs] at h
    simp only at h
    by_cases hrr : isCrate r = true
    · simp only [hrr, Bool.not_true, Bool.false_eq_true, if_false] at h
      cases hs2 : splitFirst '@' rest with
      | none => rw [hs2] at h; simp at h
      | some p =>
        obtain ⟨c, v⟩ := p
        rw [hs2] at h
        simp only at h
        by_cases hcr : isCrate c = true
        · simp only [hcr, Bool.not_true, Bool.false_eq_true, if_false] at h
          cases hp : CrateVers.parse validVers v with
          | none => rw [hp] at h; simp at h
          | some cv =>
            rw [hp] at h
            simp only [Option.some.injEq] at h
            subst h
            refine ⟨c, v, hcr, hp, rfl, Or.inr ⟨r, hrr, ?_, rfl⟩⟩
            rw [(splitFirst_some hs).1, (splitFirst_some hs2).1]
        · simp [hcr] at h
    · simp [hrr] at h

/-- the macro's `"name" = "original@version"` / `"name" = "version"` entries: every valid one is
    accepted with exactly those parts -/
theorem macro_spec_accepts (cs : CharSem) (validVers : List Char → Bool) (n c v : List Char)
    (cv : CrateVers) (hn : validCrateName n = true) (hc : validCrateName c = true)
    (hv : CrateVers.parse validVers v = some cv) :
    parseMacroCrate (macroIsCrate cs) validVers n (c ++ '@' :: v)
      = some (String.ofList n, ⟨some (String.ofList c), cv⟩) := by
  have h2 : '@' ∉ c := valid_name_no (d := '@') (by decide) hc
  simp only [parseMacroCrate, splitFirst_append h2, macro_accepts_name cs hn, macro_accepts_name cs hc,
    hv, Bool.not_true, Bool.false_eq_true, if_false]

theorem macro_spec_accepts_plain (cs : CharSem) (validVers : List Char → Bool) (n v : List Char)
    (cv : CrateVers) (hn : validCrateName n = true) (hv : CrateVers.parse validVers v = some cv)
    (hat : '@' ∉ v) :
    parseMacroCrate (macroIsCrate cs) validVers n v = some (String.ofList n, ⟨none, cv⟩) := by
  simp only [parseMacroCrate, splitFirst_none hat, macro_accepts_name cs hn, hv, Bool.not_true,
    Bool.false_eq_true, if_false]

/-! ## cargo-typify: the settings are those of the documented builder program -/

/-- the builder program the CLI options stand for (README, `cargo typify --help`): the struct
    builder is on unless `--no-builder`; one `with_derive` per `--additional-derive`; one
    `with_crate` per `--crate`; `with_map_type` / `with_unknown_crates` when given -/
def cliCalls (a : CliArgs) : List Call :=
  [Call.structBuilder (!a.noBuilder)]
  ++ a.additionalDerives.map Call.derive
  ++ a.crates.map (fun c => Call.crate c.name c.version c.rename)
  ++ (match a.mapType with | some m => [Call.mapType m] | none => [])
  ++ (match a.unknownCrates.bind parsePolicy with | some p => [Call.unknownCrates p] | none => [])

/-- clap's `value_parser` admits only the three policy words -/
def policyOk (a : CliArgs) : Bool :=
  match a.unknownCrates with
  | none => true
  | some u => (parsePolicy u).isSome

/-- **for every parsed command line, `cargo-typify` builds exactly the settings of the builder
    program `cliCalls`** -/
theorem cli_eq_builder (a : CliArgs) (h : policyOk a = true) :
    cliSettings a = some (runCalls (cliCalls a)) := by
  unfold cliSettings runCalls cliCalls CliArgs.useBuilder
  simp only [List.foldl_append, List.foldl_map, List.foldl_cons, List.foldl_nil, Call.apply]
  unfold policyOk at h
  cases hm : a.mapType <;> cases hu : a.unknownCrates <;> simp only [Option.bind, List.foldl_nil, List.foldl_cons, Call.apply]
  all_goals
    rw [hu] at h
    simp only at h
    cases hp : parsePolicy _ with
    | none => rw [hp] at h; cases h
    | some pol => simp only [List.foldl_cons, List.foldl_nil, Call.apply]

/-- what the options are documented to mean, stated on the resulting settings (no builder
    program in sight): "last `--crate` for a name wins", "a derive is applied once" … -/
structure CliEquiv (a : CliArgs) (s : Settings) : Prop where
  builder : s.structBuilder = !a.noBuilder
  derives_mem : ∀ d, d ∈ s.extraDerives ↔ d ∈ a.additionalDerives
  derives_nodup : s.extraDerives.Nodup
  crates : ∀ n, mapLookup n s.crates
    = lastWith (fun c : CrateSpec => c.name) (fun c => (⟨c.version, c.rename⟩ : CrateEntry)) n a.crates none
  mapType : s.mapType = a.mapType.getD defaultMapType
  unknown : some s.unknownCrates = (match a.unknownCrates with | none => some .generate | some u => parsePolicy u)
  typeMod : s.typeMod = none
  patch : s.patch = []
  replace : s.replace = []
  convert : s.convert = []

/-- closed form of `cliSettings` before the policy is applied -/
def cliBase (a : CliArgs) : Settings :=
  { typeMod := none
    extraDerives := derivesFold a.additionalDerives []
    structBuilder := !a.noBuilder
    unknownCrates := .generate
    crates := a.crates.foldl (fun m (c : CrateSpec) => mapInsert c.name ⟨c.version, c.rename⟩ m) []
    mapType := a.mapType.getD defaultMapType
    patch := [], replace := [], convert := [] }

theorem cliSettings_closed (a : CliArgs) :
    cliSettings a = (match a.unknownCrates with
      | none => some (cliBase a)
      | some u => (parsePolicy u).map (fun p => { cliBase a with unknownCrates := p })) := by
  unfold cliSettings
  dsimp only
  rw [foldl_withDerive (fun d => d), List.map_id']
  rw [foldl_withCrate (fun c : CrateSpec => c.name) (fun c => ⟨c.version, c.rename⟩)]
  obtain ⟨inp, b, nb, ders, out, crs, mt, uc⟩ := a
  cases mt <;> cases uc <;> try rfl
  all_goals (dsimp only; cases parsePolicy _ <;> rfl)

theorem cli_documented (a : CliArgs) (s : Settings) (h : cliSettings a = some s) : CliEquiv a s := by
  rw [cliSettings_closed] at h
  have base : CliEquiv { a with unknownCrates := none } (cliBase a) :=
    { builder := rfl
      derives_mem := by intro d; simp only [cliBase]; rw [mem_derivesFold]; simp
      derives_nodup := nodup_derivesFold _ _ List.nodup_nil
      crates := by intro n; simp only [cliBase]; rw [mapLookup_foldl_insert]; rfl
      mapType := rfl, unknown := rfl, typeMod := rfl, patch := rfl, replace := rfl, convert := rfl }
  cases hu : a.unknownCrates with
  | none =>
    rw [hu] at h
    simp only [Option.some.injEq] at h
    subst h
    exact { base with unknown := by rw [hu]; rfl }
  | some u =>
    rw [hu] at h
    dsimp only at h
    cases hp : parsePolicy u with
    | none => rw [hp] at h; cases h
    | some pol =>
      rw [hp] at h
      simp only [Option.map_some, Option.some.injEq] at h
      subst h
      exact { builder := base.builder, derives_mem := base.derives_mem, derives_nodup := base.derives_nodup,
              crates := base.crates, mapType := base.mapType, unknown := by rw [hu]; exact hp.symm,
              typeMod := rfl, patch := rfl, replace := rfl, convert := rfl }

/-! ## import_types!: the settings are those of the documented builder program -/

def macroCrateCall (e : String × MacroCrateSpec) : Call :=
  match e.2.original with
  | some orig => Call.crate orig e.2.version (some e.1)
  | none => Call.crate e.1 e.2.version none

/-- the builder program the macro options stand for (doc comment of `import_types!`, README):
    `"name" = "original@version"` means "crate `original` at `version`, known locally as `name`";
    a replacement/conversion type implements `FromStr` and `Display` unless `?`-removed -/
def macroCalls (o : MacroOpts) : List Call :=
  o.derives.map (fun d => Call.derive d.deriveText)
  ++ [Call.structBuilder o.structBuilder]
  ++ o.patch.map (fun e => Call.patch e.1 e.2.toPatch)
  ++ o.replace.map (fun e => Call.replacement e.1 e.2.typeName.toString (e.2.implList macroDefaultImpls))
  ++ o.convert.map (fun e => Call.conversion e.1 e.2.typeName.toString (e.2.implList macroDefaultImpls))
  ++ o.crates.map macroCrateCall
  ++ [Call.unknownCrates o.unknownCrates, Call.mapType o.mapType]

theorem apply_macroCrateCall (s : Settings) (e : String × MacroCrateSpec) :
    (macroCrateCall e).apply s = applyMacroCrate s e := by
  unfold macroCrateCall applyMacroCrate
  cases e.2.original <;> rfl

/-- **for every deserialised option set, `import_types!` builds exactly the settings of the
    builder program `macroCalls`** -/
theorem macro_eq_builder (o : MacroOpts) :
    macroSettings macroDefaultImpls o = runCalls (macroCalls o) := by
  unfold macroSettings runCalls macroCalls
  have : (fun x y => Call.apply x (macroCrateCall y)) = applyMacroCrate := by
    funext s e; exact apply_macroCrateCall s e
  simp only [List.foldl_append, List.foldl_map, List.foldl_cons, List.foldl_nil, this]
  rfl

/-- the effective key of a `crates` entry: the crate the entry is about -/
def effCrate (e : String × MacroCrateSpec) : String := e.2.original.getD e.1
def effEntry (e : String × MacroCrateSpec) : CrateEntry :=
  match e.2.original with
  | some _ => ⟨e.2.version, some e.1⟩
  | none => ⟨e.2.version, none⟩

theorem applyMacroCrate_eq (s : Settings) (e : String × MacroCrateSpec) :
    applyMacroCrate s e = s.withCrate (effCrate e) (effEntry e).version (effEntry e).rename := by
  unfold applyMacroCrate effCrate effEntry
  cases e.2.original <;> rfl

/-- closed form of `macroSettings` -/
theorem macroSettings_closed (o : MacroOpts) :
    macroSettings macroDefaultImpls o =
      { typeMod := none
        extraDerives := derivesFold (o.derives.map TokPath.deriveText) []
        structBuilder := o.structBuilder
        unknownCrates := o.unknownCrates
        crates := o.crates.foldl (fun m e => mapInsert (effCrate e) (effEntry e) m) []
        mapType := o.mapType
        patch := o.patch.foldl (fun m e => mapInsert e.1 e.2.toPatch m) []
        replace := o.replace.foldl (fun m e => mapInsert e.1
          (⟨e.2.typeName.toString, e.2.implList macroDefaultImpls⟩ : Replace) m) []
        convert := o.convert.map (fun e => ⟨e.1, e.2.typeName.toString, e.2.implList macroDefaultImpls⟩) } := by
  unfold macroSettings
  dsimp only
  rw [foldl_withDerive TokPath.deriveText]
  rw [foldl_withPatch (fun e : String × MacroPatch => e.1) (fun e => e.2.toPatch)]
  rw [foldl_withReplacement (fun e : String × TypeAndImpls => e.1)
    (fun e => ⟨e.2.typeName.toString, e.2.implList macroDefaultImpls⟩)]
  rw [foldl_withConversion (fun e : String × TypeAndImpls =>
    (⟨e.1, e.2.typeName.toString, e.2.implList macroDefaultImpls⟩ : Conversion))]
  have : (fun s e => applyMacroCrate s e) = (fun s (e : String × MacroCrateSpec) =>
      s.withCrate (effCrate e) (effEntry e).version (effEntry e).rename) := by
    funext s e; exact applyMacroCrate_eq s e
  rw [show List.foldl applyMacroCrate = List.foldl (fun s e => applyMacroCrate s e) from rfl, this]
  rw [foldl_withCrate effCrate effEntry]
  rfl

/-- the relation between two listings of one collection of kind `c` -/
def collRel {α : Type} (c : Coll) (l₁ l₂ : List α) : Prop :=
  match c with
  | .hash => l₁.Perm l₂
  | .btree => l₁ = l₂
  | .ordered => l₁ = l₂

instance {α : Type} [DecidableEq α] (c : Coll) (l₁ l₂ : List α) : Decidable (collRel c l₁ l₂) := by
  cases c <;> unfold collRel <;> infer_instance

theorem collRel.perm {α : Type} {c : Coll} {l₁ l₂ : List α} (h : collRel c l₁ l₂) : l₁.Perm l₂ := by
  cases c
  · exact h
  · exact h ▸ List.Perm.refl _
  · exact h ▸ List.Perm.refl _

theorem collRel.eq_of_ne_hash {α : Type} {c : Coll} {l₁ l₂ : List α} (hc : c ≠ .hash)
    (h : collRel c l₁ l₂) : l₁ = l₂ := by
  cases c
  · exact absurd rfl hc
  · exact h
  · exact h

/-- two deserialisations of the same macro invocation: each map-like field lists the same
    entries, in an order that is fixed only as far as the field's collection kind (regenerated
    from the source, T7) fixes it; map keys are distinct -/
structure SameInvocation (o₁ o₂ : MacroOpts) : Prop where
  derives : collRel macroDerivesColl o₁.derives o₂.derives
  structBuilder : o₁.structBuilder = o₂.structBuilder
  unknownCrates : o₁.unknownCrates = o₂.unknownCrates
  crates : collRel macroCratesColl o₁.crates o₂.crates
  mapType : o₁.mapType = o₂.mapType
  patch : collRel macroPatchColl o₁.patch o₂.patch
  replace : collRel macroReplaceColl o₁.replace o₂.replace
  convert : collRel macroConvertColl o₁.convert o₂.convert
  patch_keys : (o₁.patch.map Prod.fst).Nodup
  replace_keys : (o₁.replace.map Prod.fst).Nodup

/-- the `BTreeSet`/`HashSet` of impls: its iteration order reaches `TypeSpaceSettings` (a `Vec`),
    so it must be a function of the set -/
theorem macro_impls_order_fixed : macroImplsColl ≠ .hash := by decide

/-- **the settings do not depend on hash iteration order**: wherever the macro iterates a
    `HashMap` the result is invariant under permutation; `derives`, `convert` and `crates` (whose
    order *does* matter: dedupe order, first match wins, two local names of one crate) are
    collections with a fixed order in the source as it is now -/
theorem macro_order_irrelevant (o₁ o₂ : MacroOpts) (h : SameInvocation o₁ o₂) :
    macroSettings macroDefaultImpls o₁ = macroSettings macroDefaultImpls o₂ := by
  rw [macroSettings_closed, macroSettings_closed]
  have hd : o₁.derives = o₂.derives := h.derives.eq_of_ne_hash (by decide)
  have hc : o₁.crates = o₂.crates := h.crates.eq_of_ne_hash (by decide)
  have hv : o₁.convert = o₂.convert := h.convert.eq_of_ne_hash (by decide)
  have hp := foldl_insert_perm (fun e : String × MacroPatch => e.1) (fun e => e.2.toPatch)
    h.patch.perm h.patch_keys []
  have hr := foldl_insert_perm (fun e : String × TypeAndImpls => e.1)
    (fun e => (⟨e.2.typeName.toString, e.2.implList macroDefaultImpls⟩ : Replace))
    h.replace.perm h.replace_keys []
  rw [hd, hc, hv, hp, hr, h.structBuilder, h.unknownCrates, h.mapType]

/-- were `crates` a `HashMap` again, its order would be harmless exactly when no two local names
    stand for the same crate (this is the hypothesis the fix 8ab9bbc made unnecessary) -/
theorem macro_crates_order_partial (l₁ l₂ : List (String × MacroCrateSpec)) (hp : l₁.Perm l₂)
    (hn : (l₁.map effCrate).Nodup) (s : Settings) :
    l₁.foldl applyMacroCrate s = l₂.foldl applyMacroCrate s := by
  have : (fun s e => applyMacroCrate s e) = (fun s (e : String × MacroCrateSpec) =>
      s.withCrate (effCrate e) (effEntry e).version (effEntry e).rename) := by
    funext s e; exact applyMacroCrate_eq s e
  rw [show List.foldl applyMacroCrate = List.foldl (fun s e => applyMacroCrate s e) from rfl, this,
    foldl_withCrate effCrate effEntry, foldl_withCrate effCrate effEntry,
    foldl_insert_perm effCrate effEntry hp hn]

/-- what the macro options are documented to mean, stated on the resulting settings -/
structure MacroEquiv (o : MacroOpts) (s : Settings) : Prop where
  builder : s.structBuilder = o.structBuilder
  derives_mem : ∀ d, d ∈ s.extraDerives ↔ ∃ p ∈ o.derives, p.deriveText = d
  derives_nodup : s.extraDerives.Nodup
  crates : ∀ n, mapLookup n s.crates = lastWith effCrate effEntry n o.crates none
  mapType : s.mapType = o.mapType
  unknown : s.unknownCrates = o.unknownCrates
  typeMod : s.typeMod = none
  patch : ∀ n, mapLookup n s.patch
    = lastWith (fun e : String × MacroPatch => e.1) (fun e => e.2.toPatch) n o.patch none
  replace : ∀ n, mapLookup n s.replace
    = lastWith (fun e : String × TypeAndImpls => e.1)
        (fun e => (⟨e.2.typeName.toString, e.2.implList macroDefaultImpls⟩ : Replace)) n o.replace none
  convert : s.convert = o.convert.map (fun e => ⟨e.1, e.2.typeName.toString, e.2.implList macroDefaultImpls⟩)

theorem macro_documented (o : MacroOpts) : MacroEquiv o (macroSettings macroDefaultImpls o) := by
  rw [macroSettings_closed]
  exact {
    builder := rfl
    derives_mem := by
      intro d
      simp only
      rw [mem_derivesFold]
      simp only [List.not_mem_nil, false_or, List.mem_map]
    derives_nodup := nodup_derivesFold _ _ List.nodup_nil
    crates := by intro n; simp only; rw [mapLookup_foldl_insert]; rfl
    mapType := rfl, unknown := rfl, typeMod := rfl
    patch := by intro n; simp only; rw [mapLookup_foldl_insert]; rfl
    replace := by intro n; simp only; rw [mapLookup_foldl_insert]; rfl
    convert := rfl }

/-- a replacement type written without a trait list implements exactly the default impls -/
theorem impls_default (p : TokPath) :
    (⟨p, []⟩ : TypeAndImpls).implList macroDefaultImpls = macroDefaultImpls := by
  unfold macroDefaultImpls; rfl

/-- `Name` adds, `?Name` removes, the last mention of a trait decides, unknown names are ignored;
    the resulting `Vec` is in `Ord` order (a function of the set) -/
theorem impls_set_mem (t : TypeAndImpls) (i : Impl) (ds : List Impl) :
    i ∈ t.implList ds ↔
      (t.impls.foldl (fun acc it => if Impl.parse it.name = some i then !it.maybe else acc)
        (decide (i ∈ ds))) = true := by
  unfold TypeAndImpls.implList TypeAndImpls.implSet
  rw [ImplSet.mem_toList]
  have hfold : ∀ (l : List ImplTrait) (s : ImplSet),
      (l.foldl ImplSet.step s).has i
      = l.foldl (fun acc it => if Impl.parse it.name = some i then !it.maybe else acc) (s.has i) := by
    intro l
    induction l with
    | nil => intro s; rfl
    | cons it t ih =>
      intro s
      simp only [List.foldl_cons]
      rw [ih]
      congr 1
      unfold ImplSet.step
      cases hp : Impl.parse it.name with
      | none => simp
      | some j =>
        simp only [ImplSet.has_set, Option.some.injEq]
        by_cases h : i = j
        · subst h; simp
        · have h' : ¬ j = i := fun e => h e.symm
          simp [h, h']
  rw [hfold]
  unfold ImplSet.ofList
  rw [ImplSet.has_ofList]
  simp [ImplSet.has]
  cases i <;> rfl

/-! ## Output path, failure -/

/-- `-o -` is stdout; any other `-o p` is the file `p`; by default the input path with its
    extension replaced by (or, lacking one, extended with) `.rs` -/
theorem out_path (a : CliArgs) :
    (a.output = some "-" → outputPath a = some .stdout) ∧
    (∀ o, a.output = some o → o ≠ "-" → outputPath a = some (.file o)) ∧
    (∀ p, a.output = none → setExtensionRs a.input.toList = some p →
      outputPath a = some (.file (String.ofList p))) := by
  refine ⟨?_, ?_, ?_⟩
  · intro h; simp [outputPath, h]
  · intro o h hne; simp [outputPath, h, hne]
  · intro p h hp; simp [outputPath, h, hp]

/-- `dir/stem.ext` ↦ `dir/stem.rs` -/
theorem set_extension_replaces (dir stem ext : List Char) (hd : dir = [] ∨ ∃ d, dir = d ++ ['/'])
    (hs : stem ≠ []) (hs1 : '/' ∉ stem) (hs2 : stem ≠ ['.']) (he1 : '/' ∉ ext) (he2 : '.' ∉ ext) :
    setExtensionRs (dir ++ stem ++ '.' :: ext) = some (dir ++ stem ++ ['.', 'r', 's']) := by
  have hf : '/' ∉ stem ++ '.' :: ext := by
    intro m
    rcases List.mem_append.mp m with m | m
    · exact hs1 m
    · rcases List.mem_cons.mp m with m | m
      · exact absurd m (by decide)
      · exact he1 m
  have hstem : fileStem (stem ++ '.' :: ext) = stem := by
    simp only [fileStem, splitLast_append he2, hs, if_false]
  have hne : stem ++ '.' :: ext ≠ [] := by simp
  have hne1 : stem ++ '.' :: ext ≠ ['.'] := by
    intro e
    cases stem with
    | nil => exact hs rfl
    | cons c t => cases t <;> simp at e
  have hne2 : stem ++ '.' :: ext ≠ ['.', '.'] := by
    intro e
    cases stem with
    | nil => exact hs rfl
    | cons c t =>
      cases t with
      | nil =>
        simp only [List.cons_append, List.nil_append, List.cons.injEq] at e
        exact hs2 (by rw [e.1])
      | cons c2 t2 => cases t2 <;> simp at e
  rcases hd with rfl | ⟨d, rfl⟩
  · simp only [setExtensionRs, List.nil_append, splitLast_none hf, hstem, hne, hne1, hne2, or_self,
      if_false]
  · have : d ++ ['/'] ++ stem ++ '.' :: ext = d ++ '/' :: (stem ++ '.' :: ext) := by simp
    rw [this]
    simp only [setExtensionRs, splitLast_append hf, hstem, hne, hne1, hne2, or_self, if_false,
      List.append_assoc]

/-- `dir/name` without a dot ↦ `dir/name.rs` -/
theorem set_extension_appends (dir f : List Char) (hd : dir = [] ∨ ∃ d, dir = d ++ ['/'])
    (hf0 : f ≠ []) (hf1 : '/' ∉ f) (hf2 : '.' ∉ f) :
    setExtensionRs (dir ++ f) = some (dir ++ f ++ ['.', 'r', 's']) := by
  have hstem : fileStem f = f := by simp only [fileStem, splitLast_none hf2]
  have hne1 : f ≠ ['.'] := fun e => hf2 (by simp [e])
  have hne2 : f ≠ ['.', '.'] := fun e => hf2 (by simp [e])
  rcases hd with rfl | ⟨d, rfl⟩
  · simp only [setExtensionRs, List.nil_append, splitLast_none hf1, hstem, hf0, hne1, hne2, or_self,
      if_false]
  · have : d ++ ['/'] ++ f = d ++ '/' :: f := by simp
    rw [this]
    simp only [setExtensionRs, splitLast_append hf1, hstem, hf0, hne1, hne2, or_self, if_false,
      List.append_assoc]
    simp

/-- **nothing is written on failure**: a non-zero exit leaves no file and an empty stdout -/
theorem fail_writes_nothing (isCrate validVers : List Char → Bool)
    (generate : Settings → String → Option String) (r : RawCli)
    (h : (runCli isCrate validVers generate r).exit ≠ 0) :
    (runCli isCrate validVers generate r).written = none ∧ (runCli isCrate validVers generate r).stdout = "" := by
  unfold runCli at h ⊢
  cases hpc : parseCli isCrate validVers r with
  | none => exact ⟨rfl, rfl⟩
  | some a =>
    rw [hpc] at h
    dsimp only at h ⊢
    cases hcs : cliSettings a with
    | none => exact ⟨rfl, rfl⟩
    | some s =>
      rw [hcs] at h
      dsimp only at h ⊢
      cases hg : generate s a.input with
      | none => exact ⟨rfl, rfl⟩
      | some text =>
        rw [hg] at h
        dsimp only at h ⊢
        cases ho : outputPath a with
        | none => exact ⟨rfl, rfl⟩
        | some out =>
          rw [ho] at h
          cases out with
          | stdout => exact absurd rfl h
          | file p => exact absurd rfl h

/-- a bad `--crate` specifier is a usage error: exit 2, nothing generated or written -/
theorem bad_spec_fails (isCrate validVers : List Char → Bool)
    (generate : Settings → String → Option String) (r : RawCli)
    (h : parseSpecs isCrate validVers r.crates = none) :
    runCli isCrate validVers generate r = ⟨2, none, ""⟩ := by
  have : parseCli isCrate validVers r = none := by
    unfold parseCli
    split
    · rfl
    · split
      · rfl
      · rw [h]
  simp only [runCli, this]

/-! ## Same settings, same items -/

/-- generation is a function of settings × schema (`TypeSpace::new(&settings)`,
    `add_root_schema(schema)`, `to_stream()`): definitional -/
theorem same_settings_same_items {Schema Items : Type} (generate : Settings → Schema → Items)
    (s₁ s₂ : Settings) (h : s₁ = s₂) (schema : Schema) : generate s₁ schema = generate s₂ schema := by
  rw [h]

/-- **C15, assembled**: a command line and a macro invocation whose documented builder programs
    agree produce the same items as that builder program, for every schema and generator -/
theorem frontends_same_items {Schema Items : Type} (generate : Settings → Schema → Items)
    (a : CliArgs) (o : MacroOpts) (calls : List Call) (s : Settings) (hp : policyOk a = true)
    (hs : cliSettings a = some s)
    (ha : runCalls (cliCalls a) = runCalls calls) (ho : runCalls (macroCalls o) = runCalls calls)
    (schema : Schema) :
    generate s schema = generate (runCalls calls) schema ∧
    generate (macroSettings macroDefaultImpls o) schema = generate (runCalls calls) schema := by
  rw [cli_eq_builder a hp] at hs
  simp only [Option.some.injEq] at hs
  rw [← hs, ha, macro_eq_builder, ho]
  exact ⟨rfl, rfl⟩

/-! ## Non-vacuity: the hypotheses are satisfiable by non-trivial inputs -/

private def anyVers : List Char → Bool := fun v => v = "0.21.0".toList || v = "1.2.3".toList

-- spec_accepts: the specifier the pinned tree rejected
example : validCrateName "base64".toList = true := by decide
example : CrateVers.parse anyVers "0.21.0".toList = some (.version "0.21.0") := by decide
example : parseCrateSpec (cliIsCrate CharSem.ascii) anyVers "base64@0.21.0".toList
    = some ⟨"base64", .version "0.21.0", none⟩ := by decide
-- spec_accepts_rename, with digits, `-`, `_`, `*`, `!`
example : parseCrateSpec (cliIsCrate CharSem.ascii) anyVers "r2_d=my-crate9@*".toList
    = some ⟨"my-crate9", .any, some "r2_d"⟩ := by decide
example : parseCrateSpec (cliIsCrate CharSem.ascii) anyVers "9lives@!".toList
    = some ⟨"9lives", .never, none⟩ := by decide
-- spec_rejects / spec_sound
example : parseCrateSpec (cliIsCrate CharSem.ascii) anyVers "serde".toList = none := by decide
example : parseCrateSpec (cliIsCrate CharSem.ascii) anyVers "a b@1.2.3".toList = none := by decide
example : parseCrateSpec (cliIsCrate CharSem.ascii) anyVers "a@1.2".toList = none := by decide
-- the empty name is accepted by `is_crate` (both front-ends; not a Cargo name)
example : parseCrateSpec (cliIsCrate CharSem.ascii) anyVers "@1.2.3".toList
    = some ⟨"", .version "1.2.3", none⟩ := by decide
-- macro_spec_accepts
example : parseMacroCrate (macroIsCrate CharSem.ascii) anyVers "b64".toList "base64@0.21.0".toList
    = some ("b64", ⟨some "base64", .version "0.21.0"⟩) := by decide

private def exArgs : CliArgs :=
  { input := "dir/in.json", noBuilder := true, additionalDerives := ["Hash", "a::B", "Hash"],
    crates := [⟨"x", .any, none⟩, ⟨"base64", .version "0.21.0", some "b"⟩, ⟨"x", .never, some "y"⟩],
    mapType := some "::std::collections::BTreeMap", unknownCrates := some "deny" }

-- cli_eq_builder / cli_documented on an assignment using every CLI option
example : policyOk exArgs = true := by decide
example : cliSettings exArgs = some
    { typeMod := none, extraDerives := ["Hash", "a::B"], structBuilder := false, unknownCrates := .deny,
      crates := [("base64", ⟨.version "0.21.0", some "b"⟩), ("x", ⟨.never, some "y"⟩)],
      mapType := "::std::collections::BTreeMap", patch := [], replace := [], convert := [] } := by decide

private def exOpts₁ : MacroOpts :=
  { derives := [⟨true, ["std", "hash", "Hash"]⟩, ⟨false, ["PartialEq"]⟩], structBuilder := true,
    unknownCrates := .allow, crates := [("b", ⟨some "base64", .version "0.21.0"⟩), ("x", ⟨none, .any⟩)],
    patch := [("Foo", ⟨some "Bar", [⟨false, ["Eq"]⟩]⟩), ("Baz", ⟨none, []⟩)],
    replace := [("Q", ⟨⟨false, ["a", "Q"]⟩, [⟨true, "Display"⟩, ⟨false, "Default"⟩, ⟨false, "Bogus"⟩]⟩), ("P", ⟨⟨false, ["P"]⟩, []⟩)],
    convert := [("{\"type\":\"number\"}", ⟨⟨true, ["d", "Dec"]⟩, []⟩)] }
private def exOpts₂ : MacroOpts :=
  { exOpts₁ with
    patch := if macroPatchColl = .hash then exOpts₁.patch.reverse else exOpts₁.patch
    replace := if macroReplaceColl = .hash then exOpts₁.replace.reverse else exOpts₁.replace }

-- macro_eq_builder / macro_order_irrelevant: two hash orders of one invocation
example : SameInvocation exOpts₁ exOpts₂ :=
  { derives := rfl, structBuilder := rfl, unknownCrates := rfl, crates := rfl, mapType := rfl,
    patch := by decide, replace := by decide, convert := rfl,
    patch_keys := by decide, replace_keys := by decide }
example : (macroSettings macroDefaultImpls exOpts₁).replace
    = [("P", ⟨"P", [.fromStr, .display]⟩), ("Q", ⟨"a :: Q", [.fromStr, .default]⟩)] := by decide
example : (macroSettings macroDefaultImpls exOpts₁).extraDerives = ["::std::hash::Hash", "PartialEq"] := by
  decide
-- macro_crates_order_partial: its hypothesis is not vacuous, and not always true
example : (exOpts₁.crates.map effCrate).Nodup := by decide
example : ¬ ([("a", (⟨some "x", .any⟩ : MacroCrateSpec)), ("b", ⟨some "x", .never⟩)].map effCrate).Nodup := by
  decide

-- out_path
example : setExtensionRs "dir/in.json".toList = some "dir/in.rs".toList := by decide
example : setExtensionRs "a.b/schema".toList = some "a.b/schema.rs".toList := by decide
example : setExtensionRs ".json".toList = some ".json.rs".toList := by decide
example : outputPath exArgs = some (.file "dir/in.rs") := by decide
example : outputPath { exArgs with output := some "-" } = some .stdout := by decide

-- fail_writes_nothing / bad_spec_fails
example : runCli (cliIsCrate CharSem.ascii) anyVers (fun _ _ => some "code")
    { input := "in.json", crates := ["serde"] } = ⟨2, none, ""⟩ := by decide
example : runCli (cliIsCrate CharSem.ascii) anyVers (fun _ _ => none)
    { input := "in.json", crates := ["base64@0.21.0"] } = ⟨1, none, ""⟩ := by decide
example : runCli (cliIsCrate CharSem.ascii) anyVers (fun _ _ => some "code")
    { input := "in.json", crates := ["base64@0.21.0"] } = ⟨0, some ("in.rs", "code"), ""⟩ := by decide

end TypifyModel.C15

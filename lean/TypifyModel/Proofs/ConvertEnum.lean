import TypifyModel.Model.ConvertEnum
/-! What the `enum` keyword becomes (`ConvertEnum.*`, tied to convert.rs by the M0 lattice of `./check C05`): the variants of a
    string enum are EXACTLY the enumerated strings that meet the string constraints — in order, none dropped, none added, lengths
    counted in characters —, `null` among the values means `Option`, and a typed enumeration admits exactly the listed values. -/
namespace TypifyModel.ConvertEnum
open TypifyModel TypifyModel.Excl

def strOf : Json → Option String
  | .str s => some s
  | _ => none

/-- the kept strings are the enumerated strings that meet the constraints, in their order -/
theorem keptStrings_spec (v : StrV) : ∀ (vals : List Json) (ks : List String),
    keptStrings v vals = some ks → ks = (vals.filterMap strOf).filter v.valid := by
  intro vals
  induction vals with
  | nil => intro ks h; simp [keptStrings] at h; subst h; rfl
  | cons a r ih =>
    intro ks h
    cases a with
    | null =>
      simp only [keptStrings] at h
      have := ih ks h
      rw [this]
      simp [List.filterMap_cons, strOf]
    | str s =>
      simp only [keptStrings] at h
      cases hr : keptStrings v r with
      | none => rw [hr] at h; simp at h
      | some l =>
        rw [hr] at h
        simp only [Option.map_some, Option.some.injEq] at h
        have := ih l hr
        subst h
        by_cases hv : v.valid s = true
        · simp [strOf, hv, List.filter_cons, this]
        · have hv' : v.valid s = false := by simpa using hv
          simp [strOf, hv', List.filter_cons, this]
    | bool b => simp [keptStrings] at h
    | int n => simp [keptStrings] at h
    | flt m e => simp [keptStrings] at h
    | arr xs => simp [keptStrings] at h
    | obj kvs => simp [keptStrings] at h

theorem mem_filterMap_strOf {vals : List Json} {s : String} : s ∈ vals.filterMap strOf ↔ Json.str s ∈ vals := by
  rw [List.mem_filterMap]
  constructor
  · rintro ⟨a, ha, h⟩
    cases a <;> simp [strOf] at h
    subst h; exact ha
  · intro h; exact ⟨.str s, h, rfl⟩

/-- the string enum inside the result, if there is one -/
def variantsOf : Out → Option (List String)
  | .strEnum vs => some vs
  | .option (.strEnum vs) => some vs
  | _ => none

/-- **the variants of a string enum are exactly the enumerated strings that meet the constraints**: no enumerated value loses
    its variant, no variant is invented (for every list of values and every constraint set) -/
theorem enum_string_variants_exact (v : StrV) (vals : List Json) (vs : List String)
    (h : variantsOf (enumString v vals) = some vs) :
    vs = (vals.filterMap strOf).filter v.valid ∧ ∀ s, s ∈ vs ↔ (Json.str s ∈ vals ∧ v.valid s = true) := by
  unfold enumString at h
  cases hk : keptStrings v vals with
  | none => rw [hk] at h; simp [variantsOf] at h
  | some ks =>
    rw [hk] at h
    have hspec := keptStrings_spec v vals ks hk
    have hvs : vs = ks := by
      cases ks with
      | nil => simp only at h; split at h <;> simp [variantsOf] at h
      | cons a r =>
        simp only at h
        split at h
        · simp [variantsOf] at h
        · split at h <;> simp [variantsOf] at h <;> exact h.symm
    subst hvs
    refine ⟨hspec, ?_⟩
    intro s
    rw [hspec, List.mem_filter, mem_filterMap_strOf]

/-- lengths are counted in characters: one scalar value is one, whatever its UTF-8 length -/
theorem length_bound_counts_characters (n : Nat) (s : String) :
    ({ maxLen := some n } : StrV).valid s = decide (s.length ≤ n) := by
  simp [StrV.valid]

example : ({ maxLen := some 1 } : StrV).valid "é" = true ∧ ({ maxLen := some 1 } : StrV).valid "日本" = false := by
  refine ⟨by decide, by decide⟩

/-- a string enum is wrapped in `Option` exactly when `null` is among the enumerated values -/
theorem enum_string_option_iff_null (v : StrV) (vals : List Json) (vs : List String) :
    (enumString v vals = .option (.strEnum vs) → vals.any isNull = true) ∧
    (enumString v vals = .strEnum vs → vals.any isNull = false) := by
  unfold enumString
  cases keptStrings v vals with
  | none => simp
  | some ks =>
    cases ks with
    | nil => simp only; constructor <;> (intro h; split at h <;> simp at h)
    | cons a r =>
      simp only
      constructor
      · intro h
        split at h
        · simp at h
        · split at h
          · assumption
          · simp at h
      · intro h
        split at h
        · simp at h
        · split at h
          · simp at h
          · rename_i hn; simpa using hn

/-- **a typed enumeration admits exactly the listed values** -/
theorem typed_enum_values_exact (t t' : JT) (c : Json → Bool) (vals vs : List Json)
    (h : typedEnum t c vals = .allow t' vs) : t' = t ∧ vs = vals ∧ vals.all c = true := by
  unfold typedEnum at h
  split at h
  · rename_i hc
    simp only [Out.allow.injEq] at h
    exact ⟨h.1.symm, h.2.symm, hc⟩
  · simp at h

/-- an enumeration of strings without a `type` is the string enum of those values -/
theorem unknown_enum_of_strings (c : JT → Json → Bool) (vals : List Json) (hne : vals ≠ [])
    (hs : ∀ x ∈ vals, ∃ s, x = Json.str s) : unknownEnum c vals = enumString {} vals := by
  have hnn : vals.filter (fun v => !isNull v) = vals := by
    apply List.filter_eq_self.mpr
    intro a ha; obtain ⟨s, rfl⟩ := hs a ha; rfl
  have hany : vals.any isNull = false := by
    rw [List.any_eq_false]; intro a ha; obtain ⟨s, rfl⟩ := hs a ha; simp [isNull]
  have hty : valueTypes vals = [JT.string] := by
    unfold valueTypes
    rw [hnn]
    cases vals with
    | nil => exact absurd rfl hne
    | cons a r =>
      obtain ⟨s, rfl⟩ := hs _ List.mem_cons_self
      have hr : ∀ x ∈ r.map JT.ofValue, x = JT.string := by
        intro x hx
        rw [List.mem_map] at hx
        obtain ⟨y, hy, rfl⟩ := hx
        obtain ⟨s', rfl⟩ := hs y (List.mem_cons_of_mem _ hy)
        rfl
      simp only [List.map_cons, JT.ofValue]
      rw [List.eraseDups_cons]
      have : List.filter (fun b => !b == JT.string) (r.map JT.ofValue) = [] := by
        apply List.filter_eq_nil_iff.mpr
        intro x hx; simp [hr x hx]
      rw [this]; rfl
  unfold unknownEnum
  have hemp : vals.isEmpty = false := by cases vals <;> simp_all
  simp only [hemp, hnn, hany, hty]
  simp

end TypifyModel.ConvertEnum

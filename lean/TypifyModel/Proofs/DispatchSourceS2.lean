import TypifyModel.Proofs.DispatchSource
/-! `typed_arms_agree` for a single stated type (split over two files so that the 7 × 512 points are decided in parallel). -/
namespace TypifyModel.Dispatch
open TypifyModel TypifyModel.Excl

theorem typed_arms_agree_number :
    ∀ fmt en cn sub num str arr obj rf : Bool,
      expTyped.map (fun a => cGuard a (.single .number) ⟨fmt, en, cn, sub, num, str, arr, obj, rf⟩) =
      (typedArmsG ⟨fmt, en, cn, sub, num, str, arr, obj, rf⟩ .subschemasMerged (tyAbsSingle (.single .number)) false true).map
        (fun ga => some ga.1) := by
  decide +kernel

theorem typed_arms_agree_string :
    ∀ fmt en cn sub num str arr obj rf : Bool,
      expTyped.map (fun a => cGuard a (.single .string) ⟨fmt, en, cn, sub, num, str, arr, obj, rf⟩) =
      (typedArmsG ⟨fmt, en, cn, sub, num, str, arr, obj, rf⟩ .subschemasMerged (tyAbsSingle (.single .string)) false true).map
        (fun ga => some ga.1) := by
  decide +kernel

theorem typed_arms_agree_integer :
    ∀ fmt en cn sub num str arr obj rf : Bool,
      expTyped.map (fun a => cGuard a (.single .integer) ⟨fmt, en, cn, sub, num, str, arr, obj, rf⟩) =
      (typedArmsG ⟨fmt, en, cn, sub, num, str, arr, obj, rf⟩ .subschemasMerged (tyAbsSingle (.single .integer)) false true).map
        (fun ga => some ga.1) := by
  decide +kernel

end TypifyModel.Dispatch

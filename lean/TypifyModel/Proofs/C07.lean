import TypifyModel.Proofs.Lemmas.CyclesAcyclic
import TypifyModel.Proofs.Lemmas.CyclesFrame
import TypifyModel.Proofs.Lemmas.CyclesMinimal
import TypifyModel.Proofs.Lemmas.CyclesTotal
import TypifyModel.Proofs.Lemmas.CyclesClosed
import TypifyModel.Proofs.Lemmas.CyclesOnCycle
/-! # C07 — recursive schemas produce finitely sized types

Theorems about `Cycles.breakCycles` (the model of `TypeSpace::break_cycles`, tied to the code by the
correspondence slice `c07`), for ALL graphs, all root ranges, no bound on size:

* `break_acyclic` / `break_no_cycle` — after cutting, every by-value edge out of a node reachable from
  the roots (reachable in the result OR in the input graph) strictly decreases a rank; hence no
  by-value cycle: every containment cycle passes through a `Box`.
* `break_minimal` — no by-value cycle reachable from the roots ⇒ the graph is returned unchanged
  (no `Box` is introduced).
* `break_box_on_cycle` — a member is redirected to a `Box` only when it lies on a by-value cycle of the
  input (edge-wise form of minimality).
* `break_only_box` — the only changes are child ids `c` redirected to an entry `Box(c)` and fresh
  `Box` entries.
* `break_total` — on well-formed graphs the fuel `next_id + 1` suffices (the model never answers `none`).

Definitions used in the statements: `Cycles.E` (by-value edge), `Cycles.Reach`, `Cycles.Path`,
`Cycles.KeysBelow`, `Cycles.WF`, `Cycles.Acyclic`, `Cycles.OnlyBox` (in `Proofs/Lemmas/Cycles*.lean`).
The clause "values of the recursive types still round-trip" (`Box` is transparent for serde) is a
statement about the Serde model and is not part of this file. -/
namespace TypifyModel.C07
open TypifyModel.Cycles

theorem breakCycles_some {g r : G} {lo hi : Nat} (h : breakCycles g lo hi = some r) :
    ∃ s, breakCyclesSt (g.next + 1) g lo hi = some s ∧ s.g = r := by
  unfold breakCycles at h
  cases hs : breakCyclesSt (g.next + 1) g lo hi with
  | none => rw [hs] at h; cases h
  | some s => rw [hs] at h; exact ⟨s, rfl, by simpa using h⟩

/-- **Acyclicity.** There is a rank that strictly decreases along every by-value edge of the result
    leaving a node reachable from the roots (in the result or in the input). -/
theorem break_acyclic {g r : G} {lo hi : Nat} (hk : KeysBelow g)
    (h : breakCycles g lo hi = some r) :
    ∃ rank : Nat → Nat, ∀ u v, (Reach r lo hi u ∨ Reach g lo hi u) → E r u v → rank v < rank u := by
  obtain ⟨s, hs, rfl⟩ := breakCycles_some h
  obtain ⟨inv, _, hr⟩ := breakCyclesSt_inv hk hs
  obtain ⟨cl, _⟩ := breakCyclesSt_closed hk hs
  refine ⟨rank s.g s.fin, fun u v hu he => ?_⟩
  have hfin : u ∈ s.fin := by
    rcases hu with hu | hu
    · rcases reach_fin inv hr hu with h | h
      · exact h
      · obtain ⟨n, hn, hv⟩ := he
        rw [h n hn] at hv; simp at hv
    · exact reach_input_fin inv cl hr hu
  exact rank_lt inv.topo inv.nodup hfin he

/-- a strictly decreasing rank on a set closed under edges excludes cycles through that set -/
theorem no_cycle_of_rank {r : G} {S : Nat → Prop} {rank : Nat → Nat}
    (hstep : ∀ u v, S u → E r u v → S v) (hlt : ∀ u v, S u → E r u v → rank v < rank u)
    {u w : Nat} (hu : S u) (p : Path r u w) : S w ∧ rank w < rank u := by
  induction p with
  | single e => exact ⟨hstep _ _ hu e, hlt _ _ hu e⟩
  | tail _ e ih => exact ⟨hstep _ _ ih.1 e, Nat.lt_trans (hlt _ _ ih.1 e) ih.2⟩

/-- **No containment cycle without a `Box`.** No non-empty by-value path of the result leads from a
    node reachable from the roots back to itself. -/
theorem break_no_cycle {g r : G} {lo hi : Nat} (hk : KeysBelow g)
    (h : breakCycles g lo hi = some r) :
    ∀ u, (Reach r lo hi u ∨ Reach g lo hi u) → ¬ Path r u u := by
  obtain ⟨s, hs, rfl⟩ := breakCycles_some h
  obtain ⟨inv, _, hr⟩ := breakCyclesSt_inv hk hs
  obtain ⟨cl, _⟩ := breakCyclesSt_closed hk hs
  intro u hu p
  -- the closed set: finished nodes and nodes without by-value children
  let S : Nat → Prop := fun x => x ∈ s.fin ∨ Leaf s.g x
  have hnl : ∀ x v, Leaf s.g x → E s.g x v → False := fun x v hl ⟨n, hn, hv⟩ => by
    rw [hl n hn] at hv; simp at hv
  have hstep : ∀ x v, S x → E s.g x v → S v := fun x v hx he => by
    rcases hx with hx | hx
    · rcases Topo_pos _ inv.topo inv.nodup _ hx _ he with h | ⟨h, _⟩
      · exact Or.inr h
      · exact Or.inl h
    · exact (hnl x v hx he).elim
  have hlt : ∀ x v, S x → E s.g x v → rank s.g s.fin v < rank s.g s.fin x := fun x v hx he => by
    rcases hx with hx | hx
    · exact rank_lt inv.topo inv.nodup hx he
    · exact (hnl x v hx he).elim
  have hS : S u := by
    rcases hu with hu | hu
    · exact reach_fin inv hr hu
    · exact Or.inl (reach_input_fin inv cl hr hu)
  exact Nat.lt_irrefl _ (no_cycle_of_rank hstep hlt hS p).2

/-- **Minimality.** If no by-value cycle is reachable from the roots, cutting returns the input
    graph itself: no `Box` entry is allocated and no member is redirected. -/
theorem break_minimal {g r : G} {lo hi : Nat} (hac : Acyclic g lo hi)
    (h : breakCycles g lo hi = some r) : r = g := by
  obtain ⟨s, hs, rfl⟩ := breakCycles_some h
  exact breakCyclesSt_min hac hs

/-- **Indirection only to cut a cycle.** Entry by entry: a by-value member `c` of entry `i` that was
    redirected now points to an entry `Box(c)`, and in the input graph `c` is `i` itself or leads back
    to `i` along by-value edges — the redirected edge lies on a containment cycle. -/
theorem break_box_on_cycle {g r : G} {lo hi : Nat} (hk : KeysBelow g)
    (h : breakCycles g lo hi = some r) :
    ∀ i n, g.get i = some n → ∃ f : Nat → Nat, r.get i = some (n.mapChildren f) ∧
      ∀ c ∈ n.childIds, f c = c ∨ (r.get (f c) = some (.box c) ∧ (c = i ∨ Path g c i)) := by
  obtain ⟨s, hs, rfl⟩ := breakCycles_some h
  exact breakCyclesSt_cut hk hs

/-- a rank decreasing along all by-value edges is a sufficient reason for `Acyclic` -/
theorem acyclic_of_rank {g : G} {lo hi : Nat} (rank : Nat → Nat)
    (hlt : ∀ u v, E g u v → rank v < rank u) : Acyclic g lo hi := fun _ _ p =>
  Nat.lt_irrefl _ (no_cycle_of_rank (S := fun _ => True) (fun _ _ _ _ => trivial)
    (fun u v _ e => hlt u v e) trivial p).2

/-- **Only boxes.** Every entry of the input is still there with the same kind, arity, order, heap
    ids; each by-value child id `c` is either kept or replaced by the id of an entry `Box(c)`; every
    new entry is a `Box` at a fresh id. -/
theorem break_only_box {g r : G} {lo hi : Nat} (hk : KeysBelow g)
    (h : breakCycles g lo hi = some r) : OnlyBox g r := by
  obtain ⟨s, hs, rfl⟩ := breakCycles_some h
  exact (breakCyclesSt_frame hk hs).onlyBox

/-- **Totality.** On a well-formed graph with roots below `next_id` the traversal never runs out of
    fuel (the recursion depth is bounded by the number of ids). -/
theorem break_total {g : G} {lo hi : Nat} (hw : WF g) (hhi : hi ≤ g.next) :
    ∃ r, breakCycles g lo hi = some r := by
  obtain ⟨s, hs⟩ := breakCyclesSt_total (lo := lo) hw hhi
  exact ⟨s.g, by simp [breakCycles, hs]⟩

/-- `get_child_ids` and heap positions are disjoint by kind: an entry with by-value children has no
    heap ids and vice versa (`Box`/`Vec`/`Set`/`Map` never contribute a by-value edge). -/
theorem byValue_or_heap (n : Node) : n.childIds = [] ∨ n.heapIds = [] := by
  cases n <;> simp [Node.childIds, Node.heapIds]

/-- rewriting keeps kind, arity and heap ids -/
theorem mapChildren_shape (f : Nat → Nat) (n : Node) :
    (n.mapChildren f).childIds = n.childIds.map f ∧ (n.mapChildren f).heapIds = n.heapIds := by
  refine ⟨Node.childIds_mapChildren f n, ?_⟩
  cases n <;> rfl

/-! ### non-vacuity: the hypotheses are satisfiable by non-trivial inputs -/

/-- `S0 { a: S0, b: Option<S0> }`, `S2 (S0)` -/
def gLoop : G where
  get := fun i => match i with
    | 0 => some (.struct [0, 1])
    | 1 => some (.option 0)
    | 2 => some (.newtype 0)
    | _ => none
  next := 3

theorem gLoop_wf : WF gLoop where
  keys := by
    intro i n h
    match i with
    | 0 | 1 | 2 => simp [gLoop]
    | i + 3 => simp [gLoop] at h
  children := by
    intro u v ⟨n, hn, hv⟩
    match u with
    | 0 =>
      simp only [gLoop, Option.some.injEq] at hn; subst hn
      simp only [Node.childIds, List.mem_cons, List.mem_nil_iff, or_false] at hv
      rcases hv with rfl | rfl <;> exact ⟨_, rfl⟩
    | 1 =>
      simp only [gLoop, Option.some.injEq] at hn; subst hn
      simp only [Node.childIds, List.mem_cons, List.mem_nil_iff, or_false] at hv
      subst hv; exact ⟨_, rfl⟩
    | 2 =>
      simp only [gLoop, Option.some.injEq] at hn; subst hn
      simp only [Node.childIds, List.mem_cons, List.mem_nil_iff, or_false] at hv
      subst hv; exact ⟨_, rfl⟩
    | u + 3 => simp [gLoop] at hn

/-- cutting `gLoop` from root 0: the self edge goes through a fresh `Box(0)` (id 3), the edge
    `Option<S0> → S0` met while `S0` is active goes through the same box -/
example : (breakCycles gLoop 0 1).map (fun r => (r.get 0, r.get 1, r.get 2, r.get 3, r.next))
    = some (some (.struct [3, 1]), some (.option 3), some (.newtype 0), some (.box 0), 4) := by
  decide

example : ∃ r, breakCycles gLoop 0 3 = some r ∧ OnlyBox gLoop r ∧
    ∀ u, Reach gLoop 0 3 u → ¬ Path r u u := by
  obtain ⟨r, hr⟩ := break_total (lo := 0) (hi := 3) gLoop_wf (Nat.le_refl _)
  exact ⟨r, hr, break_only_box gLoop_wf.keys hr,
    fun u hu => break_no_cycle gLoop_wf.keys hr u (Or.inr hu)⟩

/-- `S0 { a: Option<S1>, b: S1 }`, `S1 { v: Vec<S0> }`: recursion only through a `Vec` -/
def gDag : G where
  get := fun i => match i with
    | 0 => some (.struct [2, 1])
    | 1 => some (.struct [3])
    | 2 => some (.option 1)
    | 3 => some (.vec 0)
    | _ => none
  next := 4

theorem gDag_acyclic : Acyclic gDag 0 2 := by
  refine acyclic_of_rank (fun i => match i with | 0 => 3 | 2 => 2 | 1 => 1 | _ => 0) ?_
  intro u v ⟨n, hn, hv⟩
  match u with
  | 0 =>
    simp only [gDag, Option.some.injEq] at hn; subst hn
    simp only [Node.childIds, List.mem_cons, List.mem_nil_iff, or_false] at hv
    rcases hv with rfl | rfl <;> decide
  | 1 =>
    simp only [gDag, Option.some.injEq] at hn; subst hn
    simp only [Node.childIds, List.mem_cons, List.mem_nil_iff, or_false] at hv
    subst hv; decide
  | 2 =>
    simp only [gDag, Option.some.injEq] at hn; subst hn
    simp only [Node.childIds, List.mem_cons, List.mem_nil_iff, or_false] at hv
    subst hv; decide
  | 3 =>
    simp only [gDag, Option.some.injEq] at hn; subst hn
    simp [Node.childIds] at hv
  | u + 4 => simp [gDag] at hn

example : ∀ r, breakCycles gDag 0 2 = some r → r = gDag :=
  fun _ h => break_minimal gDag_acyclic h

example : (breakCycles gDag 0 2).map (fun r => (r.get 0, r.get 1, r.next))
    = some (some (.struct [2, 1]), some (.struct [3]), 4) := by
  decide

end TypifyModel.C07

import TypifyModel.Proofs.C11Natives
/-! Refutation of the full C11 statement over the regenerated table: the `date-time` arm advertises `Display` for
    `chrono::DateTime<Utc>`, which prints `2024-02-29 13:45:10 UTC` where serialization writes `2024-02-29T13:45:10Z`
    (finding C11-datetime-display; replayed on compiled code by `./check C11`). -/
namespace TypifyModel.C11N
open TypifyModel TypifyModel.Generated

theorem native_formats_coherent_full_false : ¬ native_formats_coherent_full := by
  intro h
  have := h ⟨"date-time", "::chrono::DateTime<::chrono::offset::Utc>", ["Display", "FromStr"], ["chrono"]⟩ (by decide)
  revert this; decide

end TypifyModel.C11N

import TypifyModel.Proofs.C17
/-! Kernel-checked refutations of full C17 statements on the current tree (known findings).
    Allowed to stop compiling when a finding is repaired. -/
namespace TypifyModel.C17
open TypifyModel TypifyModel.Render TypifyModel.Api

def exSpace : Space := { entries := [
  (1, ⟨.string, [], [.fromStr, .display, .default]⟩),
  (2, ⟨.newtype "N" 1 (.string (some 3) none none) none, [], [.fromStr, .display]⟩)] }

/-- full statement: has_impl true ⇒ the item has the impl -/
def has_impl_sound_full : Prop :=
  ∀ (tb : DeriveTables) (st : Settings) (σ : Space) (f : Nat) (t : Id) (ent : Entry) (it : ItemS)
    (fns : List String) (i : Impl), σ.get t = some ent → itemOf tb st σ ent = some (it, fns) →
    Api.hasImpl σ (f + 1) t i = true → implK i ∈ it.impls

/-- C17-display: `has_impl(Display)` is true for a constrained string newtype, no `Display` is emitted -/
theorem has_impl_sound_full_false : ¬ has_impl_sound_full := by
  intro h
  have := h ⟨[], [], []⟩ {} exSpace 1 2 ⟨.newtype "N" 1 (.string (some 3) none none) none, [], [.fromStr, .display]⟩
    _ _ .display rfl rfl (by rfl)
  revert this
  decide

/-- independent table: does the Rust builtin implement the trait? (`NonZero*: Default` does not exist) -/
def builtinImplements (name : String) (i : Impl) : Bool :=
  match i with
  | .default => (match Serde.rtyOfName name with | some ty => !ty.isNonZero | none => true)
  | _ => true

/-- C17-nonzero-default: the API claims `Default` for NonZero integers -/
theorem builtin_has_impl_full_false :
    ¬ (∀ (σ : Space) (t : Id) (name : String) (i : Impl) (ed : List String) (im : List Impl),
        σ.get t = some ⟨.integer name, ed, im⟩ → Api.hasImpl σ 1 t i = true → builtinImplements name i = true) := by
  intro h
  have := h { entries := [(1, ⟨.integer "::std::num::NonZeroU64", [], []⟩)] } 1 "::std::num::NonZeroU64" .default [] [] rfl rfl
  revert this
  decide

end TypifyModel.C17

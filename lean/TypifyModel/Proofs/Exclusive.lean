import TypifyModel.Model.Exclusive
import TypifyModel.Proofs.Lemmas.ConvLemmas
/-! What "mutually exclusive" in `util.rs` does and does not mean.

    `Excl.excl` is the model of `schemas_mutually_exclusive` (tied to the source by the M0 correspondence `tvh_excl` vs
    `drv_excl`). `convert_any_of` relies on it for "at most one branch of this anyOf can match": when it answers `true` the
    `anyOf` is generated like a `oneOf`, an enum whose variants serde tries in order.

    * `required_undeclared_sound_closed`: the first rule for two object schemas — one side requires a member the other
      does not declare — does establish that no document satisfies both, PROVIDED the other side is closed
      (`additionalProperties: false`), for every pair of object schemas, every document and every fuel.
    * Kernel-evaluated witnesses that the answer `true` does not imply exclusivity otherwise:
      `open_branch_not_exclusive` (the other side is open: the mechanism of finding C03-untagged-shadow),
      `fixed_values_not_exclusive` (the second rule compares the SETS of pinned members, not a member pinned on both
      sides), `typed_enum_not_exclusive` (every number of an `enum` counts as `number`, never as `integer`) and
      `integer_number_not_exclusive` (`integer` and `number` are different instance types). -/
namespace TypifyModel.Excl
open TypifyModel TypifyModel.Validate TypifyModel.Conv

/-- **sound when the other side is closed**: if `a` requires a member `r` that `b` does not declare and `b` admits no
    undeclared member, no document is valid under both -/
theorem required_undeclared_sound_closed (vx : Validate.Ext) (d : Doc) (m : Nat)
    (pa pb : List (String × Schema)) (ra rb : List String) (aa : Additional Schema) (r : String)
    (hr : r ∈ ra) (hnb : pb.all (fun q => q.1 != r) = true) (v : Json)
    (hva : valid vx d (m + 1) (.object pa ra aa) v = some true)
    (hvb : valid vx d (m + 1) (.object pb rb .closed) v = some true) : False := by
  cases v with
  | obj kvs =>
    simp only [valid] at hva hvb
    obtain ⟨hreq, _⟩ := and3_true hva
    obtain ⟨_, hmemb⟩ := and3_true hvb
    simp only [Option.some.injEq] at hreq
    have hpres := (List.all_eq_true.mp hreq) r hr
    cases hl : Json.lookup kvs r with
    | none => rw [hl] at hpres; simp at hpres
    | some w =>
      have hmem : (r, w) ∈ kvs := lookup_mem hl
      rcases membersV_spec hmemb (r, w) hmem with ⟨q, hq, _⟩ | ⟨_, hno⟩
      · have hqm := List.mem_of_find?_eq_some hq
        have hqk : q.1 = r := by simpa using List.find?_some hq
        have := (List.all_eq_true.mp hnb) q hqm
        simp [hqk] at this
      · exact hno rfl
  | _ => simp [valid] at hva

def vx0 : Validate.Ext := ⟨fun _ _ => true⟩
def d0 : Doc := ⟨[]⟩

/-- `anyOf[{a?: integer}, {b: string}]`: the source calls the branches exclusive (`b` is required by the second and not
    declared by the first) although `{"b": "s"}` satisfies both — the first branch is open -/
theorem open_branch_not_exclusive :
    excl 8 (.obj [("type", .str "object"), ("properties", .obj [("a", .obj [("type", .str "integer")])])])
           (.obj [("type", .str "object"), ("properties", .obj [("b", .obj [("type", .str "string")])]), ("required", .arr [.str "b"])])
      = some true ∧
    valid vx0 d0 4 (.object [("a", .integer none none)] [] .open_) (.obj [("b", .str "s")]) = some true ∧
    valid vx0 d0 4 (.object [("b", .string none none none)] ["b"] .open_) (.obj [("b", .str "s")]) = some true := by
  refine ⟨by rfl, by rfl, by rfl⟩

/-- `{t: "x" (required), u?: string}` and `{t?: string, u: "y" (required)}`: "neither set of pinned members contains the
    other" — yet `{"t": "x", "u": "y"}` satisfies both -/
theorem fixed_values_not_exclusive :
    excl 8 (.obj [("type", .str "object"), ("required", .arr [.str "t"]),
                  ("properties", .obj [("t", .obj [("const", .str "x")]), ("u", .obj [("type", .str "string")])])])
           (.obj [("type", .str "object"), ("required", .arr [.str "u"]),
                  ("properties", .obj [("t", .obj [("type", .str "string")]), ("u", .obj [("const", .str "y")])])])
      = some true ∧
    valid vx0 d0 4 (.object [("t", .enumVals [.str "x"]), ("u", .string none none none)] ["t"] .open_)
      (.obj [("t", .str "x"), ("u", .str "y")]) = some true ∧
    valid vx0 d0 4 (.object [("t", .string none none none), ("u", .enumVals [.str "y"])] ["u"] .open_)
      (.obj [("t", .str "x"), ("u", .str "y")]) = some true := by
  refine ⟨by rfl, by rfl, by rfl⟩

/-- `{type: integer}` against `{enum: [1, 2]}`: every enumerated number counts as `number`, so "no value has the marked
    type" — yet `1` satisfies both -/
theorem typed_enum_not_exclusive :
    excl 8 (.obj [("type", .str "integer")]) (.obj [("enum", .arr [.int 1, .int 2])]) = some true ∧
    valid vx0 d0 4 (.integer none none) (.int 1) = some true ∧
    valid vx0 d0 4 (.enumVals [.int 1, .int 2]) (.int 1) = some true := by
  refine ⟨by rfl, by rfl, by rfl⟩

/-- `{type: integer}` against `{type: number}`: different instance types — yet `1` satisfies both -/
theorem integer_number_not_exclusive :
    excl 8 (.obj [("type", .str "integer")]) (.obj [("type", .str "number")]) = some true ∧
    valid vx0 d0 4 (.integer none none) (.int 1) = some true ∧
    valid vx0 d0 4 .number (.int 1) = some true := by
  refine ⟨by rfl, by rfl, by rfl⟩

/-- the hypotheses of `required_undeclared_sound_closed` are met by a concrete pair on which the source's rule fires -/
example :
    excl 8 (.obj [("type", .str "object"), ("properties", .obj [("b", .obj [("type", .str "string")])]), ("required", .arr [.str "b"])])
           (.obj [("type", .str "object"), ("properties", .obj [("a", .obj [("type", .str "integer")])]), ("additionalProperties", .bool false)])
      = some true ∧ "b" ∈ ["b"] ∧ ([("a", Schema.integer none none)].all (fun q => q.1 != "b")) = true := by
  refine ⟨by rfl, by simp, by rfl⟩

end TypifyModel.Excl

import TypifyModel.Model.Builder
/-! # C18 — the builder interface constructs exactly the valid structs

∀ IR, ∀ property lists, ∀ choices of setters and argument values. `Model/Builder.lean` is the state
machine of the emitted `builder::T`; `Serde.deStruct` is what deserialization of an object does.
Tie to the compiled code: M3 ops `build` / `unbuild` of `./check C18`. -/
namespace TypifyModel.C18
open TypifyModel TypifyModel.Serde TypifyModel.Builder

/-- **C18: struct → builder → struct is the identity** -/
theorem build_unbuild (fs : List (String × Val)) : build (unbuild fs) = .ok fs := by
  induction fs with
  | nil => rfl
  | cons a r ih =>
    obtain ⟨n, v⟩ := a
    simp only [unbuild, List.map_cons, build] at ih ⊢
    rw [ih]

/-- the build succeeds exactly when every slot holds a value -/
theorem build_ok_iff (sl : List (String × Slot)) :
    (∃ fs, build sl = .ok fs) ↔ ∀ s ∈ sl, ∃ v, s.2 = .ok v := by
  induction sl with
  | nil => simp [build]
  | cons a r ih =>
    obtain ⟨n, s⟩ := a
    cases s with
    | error m => simp [build]
    | ok v =>
      simp only [build, List.mem_cons, forall_eq_or_imp]
      constructor
      · rintro ⟨fs, h⟩
        refine ⟨⟨v, rfl⟩, ih.mp ?_⟩
        cases hb : build r with
        | ok fs' => exact ⟨fs', rfl⟩
        | error m => rw [hb] at h; simp at h
      · rintro ⟨_, h⟩
        obtain ⟨fs', hfs⟩ := ih.mpr h
        exact ⟨(n, v) :: fs', by rw [hfs]⟩

/-- a slot produced by `slots` holds a value iff its setter was given a convertible value, or was
    not called and the property has a default -/
def SlotOk (choice : Field → Option Arg) (p : Field) : Prop :=
  (∃ v, choice p = some (.value v)) ∨ (choice p = none ∧ hasDefaultAttr p = true)

/-- a slot exists only if the property's default expression evaluated (`Default for builder::T` runs all
    of them); it then holds the setter's outcome, or that default when the setter was not called -/
theorem slotOf_ok {x : Ext} {σ : Space} {fuel : Nat} {choice : Field → Option Arg} {p : Field} {s : Slot}
    (h : slotOf x σ fuel choice p = .ok s) :
    ∃ s0, initSlot x σ fuel p = .ok s0 ∧
      ((∃ a, choice p = some a ∧ s = setSlot p.name a) ∨ (choice p = none ∧ s = s0)) := by
  unfold slotOf at h
  split at h
  · simp at h
  · rename_i s0 hi
    refine ⟨s0, hi, ?_⟩
    split at h
    · rename_i a ha; simp only [Except.ok.injEq] at h; exact Or.inl ⟨a, ha, h.symm⟩
    · rename_i hn; simp only [Except.ok.injEq] at h; exact Or.inr ⟨hn, h.symm⟩

theorem slots_ok (x : Ext) (σ : Space) (fuel : Nat) (choice : Field → Option Arg) :
    ∀ (ps : List Field) (sl : List (String × Slot)), slots x σ fuel choice ps = .ok sl →
      ((∀ s ∈ sl, ∃ v, s.2 = .ok v) ↔ ∀ p ∈ ps, SlotOk choice p) := by
  intro ps
  induction ps with
  | nil => intro sl h; simp [slots] at h; subst h; simp
  | cons p r ih =>
    intro sl h
    simp only [slots] at h
    split at h
    · rename_i s rest hs hr
      simp only [Except.ok.injEq] at h; subst h
      have ihr := ih rest hr
      simp only [List.mem_cons, forall_eq_or_imp]
      rw [ihr]
      constructor
      · rintro ⟨⟨v, hv⟩, h2⟩
        refine ⟨?_, h2⟩
        obtain ⟨s0, hi, hcase⟩ := slotOf_ok hs
        rcases hcase with ⟨a, hc, hsa⟩ | ⟨hc, hs0⟩
        · cases a with
          | value w => exact Or.inl ⟨w, hc⟩
          | convFail m => rw [hsa] at hv; simp [setSlot] at hv
        · subst hs0
          refine Or.inr ⟨hc, ?_⟩
          unfold initSlot at hi
          unfold hasDefaultAttr
          cases hst : p.state with
          | required => rw [hst] at hi; simp only [Except.ok.injEq] at hi; rw [← hi] at hv; simp at hv
          | optional => rfl
          | dflt d => rfl
      · rintro ⟨hp, h2⟩
        refine ⟨?_, h2⟩
        obtain ⟨s0, hi, hcase⟩ := slotOf_ok hs
        rcases hp with ⟨v, hv⟩ | ⟨hn, hd⟩
        · rcases hcase with ⟨a, hc, hsa⟩ | ⟨hc, _⟩
          · rw [hv] at hc; simp only [Option.some.injEq] at hc; subst hc
            exact ⟨v, by rw [hsa]; rfl⟩
          · rw [hv] at hc; simp at hc
        · rcases hcase with ⟨a, hc, _⟩ | ⟨_, hs0⟩
          · rw [hn] at hc; simp at hc
          · subst hs0
            unfold initSlot at hi
            unfold hasDefaultAttr at hd
            cases hst : p.state with
            | required => rw [hst] at hd; simp at hd
            | optional =>
              rw [hst] at hi; simp only at hi
              split at hi
              · simp only [Except.ok.injEq] at hi; rename_i v _; exact ⟨v, hi.symm⟩
              · simp at hi
            | dflt d =>
              rw [hst] at hi; simp only at hi
              split at hi
              · simp only [Except.ok.injEq] at hi; rename_i v _; exact ⟨v, hi.symm⟩
              · simp at hi
              · simp at hi
    · simp at h
    · simp at h

/-- **C18: converting a builder into the struct succeeds exactly when every property without a
    default has been set and every supplied value converted** -/
theorem build_ok_iff_set (x : Ext) (σ : Space) (fuel : Nat) (choice : Field → Option Arg)
    (ps : List Field) (sl : List (String × Slot)) (h : slots x σ fuel choice ps = .ok sl) :
    (∃ fs, build sl = .ok fs) ↔ ∀ p ∈ ps, SlotOk choice p := by
  rw [build_ok_iff, slots_ok x σ fuel choice ps sl h]

/-- **C18: a failing build names the property**: the error is either "no value supplied for p" of
    an unset property without default, or the conversion error of a setter, prefixed with p's name -/
theorem build_error_names_prop (x : Ext) (σ : Space) (fuel : Nat) (choice : Field → Option Arg) :
    ∀ (ps : List Field) (sl : List (String × Slot)) (m : String),
      slots x σ fuel choice ps = .ok sl → build sl = .error m →
      ∃ p ∈ ps, (choice p = none ∧ p.state matches .required ∧ m = "no value supplied for " ++ p.name) ∨
        (∃ msg, choice p = some (.convFail msg) ∧
          m = "error converting supplied value for " ++ p.name ++ ": " ++ msg) := by
  intro ps
  induction ps with
  | nil => intro sl m h hb; simp [slots] at h; subst h; simp [build] at hb
  | cons p r ih =>
    intro sl m h hb
    simp only [slots] at h
    split at h
    · rename_i s rest hs hr
      simp only [Except.ok.injEq] at h; subst h
      simp only [build] at hb
      cases s with
      | error msg =>
        simp only [Except.error.injEq] at hb; subst hb
        refine ⟨p, by simp, ?_⟩
        obtain ⟨s0, hi, hcase⟩ := slotOf_ok hs
        rcases hcase with ⟨a, hc, hsa⟩ | ⟨hc, hs0⟩
        · cases a with
          | value w => simp [setSlot] at hsa
          | convFail m' => right; refine ⟨m', hc, ?_⟩; simp [setSlot] at hsa; exact hsa
        · subst hs0
          left
          unfold initSlot at hi
          cases hst : p.state with
          | required => rw [hst] at hi; simp only [Except.ok.injEq, Except.error.injEq] at hi; exact ⟨hc, rfl, hi.symm⟩
          | optional => rw [hst] at hi; simp only at hi; split at hi <;> simp at hi
          | dflt d => rw [hst] at hi; simp only at hi; split at hi <;> simp at hi
      | ok v =>
        simp only at hb
        cases hbr : build rest with
        | ok fs => rw [hbr] at hb; simp at hb
        | error m' =>
          rw [hbr] at hb; simp only [Except.error.injEq] at hb; subst hb
          obtain ⟨q, hq, hcase⟩ := ih rest m' hr hbr
          exact ⟨q, by simp [hq], hcase⟩
    · simp at h
    · simp at h

/-- how the caller's choices relate to a JSON object with the same members: a property is either
    set to the value its JSON member deserializes to, or neither set nor present -/
def Agree (x : Ext) (σ : Space) (f : Nat) (choice : Field → Option Arg) (L : Field → Option Json)
    (p : Field) : Prop :=
  (∃ j v, L p = some j ∧ de x σ f p.ty j = .ok v ∧ choice p = some (.value v)) ∨
  (L p = none ∧ choice p = none ∧ (p.state matches .required → optionLikeT σ p.ty = false))

/-- the per-member step of `deStruct` on an object, with the member lookup abstracted -/
def memberDe (x : Ext) (σ : Space) (f : Nat) (L : Field → Option Json) (p : Field) : Except E (String × Val) :=
  match L p with
  | some v => (match de x σ f p.ty v with | .ok a => .ok (p.name, a) | .error e => .error e)
  | none =>
    match p.state with
    | .required => if optionLikeT σ p.ty then .ok (p.name, Val.none) else .error .reject
    | .optional => (match dflt x σ f p.ty with | .ok a => .ok (p.name, a) | .error e => .error e)
    | .dflt d => (match de x σ f p.ty d with
        | .ok a => .ok (p.name, a)
        | .error .reject => .error .unsupported
        | .error e => .error e)

theorem build_eq_members (x : Ext) (σ : Space) (f : Nat) (choice : Field → Option Arg)
    (L : Field → Option Json) :
    ∀ (ps : List Field) (sl : List (String × Slot)), slots x σ f choice ps = .ok sl →
      (∀ p ∈ ps, Agree x σ f choice L p) →
      (match build sl with
       | .ok fs => mapM' (memberDe x σ f L) ps = .ok fs
       | .error _ => mapM' (memberDe x σ f L) ps = .error .reject) := by
  intro ps
  induction ps with
  | nil => intro sl h _; simp [slots] at h; subst h; simp [build, mapM']
  | cons p r ih =>
    intro sl h hag
    simp only [slots] at h
    split at h
    · rename_i s rest hs hr
      simp only [Except.ok.injEq] at h; subst h
      have ihr := ih rest hr (fun q hq => hag q (by simp [hq]))
      have hp := hag p (by simp)
      simp only [build, mapM']
      obtain ⟨s0, hi, hcase⟩ := slotOf_ok hs
      rcases hp with ⟨j, v, hL, hde, hc⟩ | ⟨hL, hc, hreq⟩
      · have hsv : s = .ok v := by
          rcases hcase with ⟨a, hc', hsa⟩ | ⟨hc', _⟩
          · rw [hc] at hc'; simp only [Option.some.injEq] at hc'; subst hc'; rw [hsa]; rfl
          · rw [hc] at hc'; simp at hc'
        subst hsv
        have hm : memberDe x σ f L p = .ok (p.name, v) := by simp [memberDe, hL, hde]
        rw [hm]; simp only
        cases hb : build rest with
        | ok fs => rw [hb] at ihr; simp only at ihr ⊢; rw [ihr]
        | error m => rw [hb] at ihr; simp only at ihr ⊢; rw [ihr]
      · have hss : s = s0 := by
          rcases hcase with ⟨a, hc', _⟩ | ⟨_, hs0⟩
          · rw [hc] at hc'; simp at hc'
          · exact hs0
        subst hss
        have hs := hi
        unfold initSlot at hs
        cases hst : p.state with
        | required =>
          rw [hst] at hs; simp only [Except.ok.injEq] at hs; subst hs
          have := hreq (by rw [hst])
          simp [memberDe, hL, hst, this]
        | optional =>
          rw [hst] at hs; simp only at hs
          split at hs
          · rename_i v hv
            simp only [Except.ok.injEq] at hs; subst hs
            have hm : memberDe x σ f L p = .ok (p.name, v) := by simp [memberDe, hL, hst, hv]
            rw [hm]; simp only
            cases hb : build rest with
            | ok fs => rw [hb] at ihr; simp only at ihr ⊢; rw [ihr]
            | error m => rw [hb] at ihr; simp only at ihr ⊢; rw [ihr]
          · simp at hs
        | dflt d =>
          rw [hst] at hs; simp only at hs
          split at hs
          · rename_i v hv
            simp only [Except.ok.injEq] at hs; subst hs
            have hm : memberDe x σ f L p = .ok (p.name, v) := by simp [memberDe, hL, hst, hv]
            rw [hm]; simp only
            cases hb : build rest with
            | ok fs => rw [hb] at ihr; simp only at ihr ⊢; rw [ihr]
            | error m => rw [hb] at ihr; simp only at ihr ⊢; rw [ihr]
          · simp at hs
          · simp at hs
    · simp at h
    · simp at h

theorem mapM'_congr {α β : Type} (g g' : α → Except E β) :
    ∀ l : List α, (∀ a ∈ l, g a = g' a) → mapM' g l = mapM' g' l := by
  intro l
  induction l with
  | nil => intro _; rfl
  | cons a r ih =>
    intro h
    simp only [mapM']
    rw [h a (by simp), ih (fun b hb => h b (by simp [hb]))]

/-- **C18: the built value equals what deserializing an object with the same members gives**
    (open struct without flattened members; the object's members are looked up by wire name) -/
theorem build_eq_de (x : Ext) (σ : Space) (f : Nat) (choice : Field → Option Arg)
    (ps : List Field) (kvs : List (String × Json)) (sl : List (String × Slot))
    (hfl : hasFlatten ps = false)
    (h : slots x σ f choice ps = .ok sl)
    (hag : ∀ p ∈ ps, Agree x σ f choice (fun p => Json.lookup kvs p.wire) p) :
    (match build sl with
     | .ok fs => deStruct x σ (f + 1) ps false (.obj kvs) = .ok (.struct fs)
     | .error _ => deStruct x σ (f + 1) ps false (.obj kvs) = .error .reject) := by
  have key := build_eq_members x σ f choice (fun p => Json.lookup kvs p.wire) ps sl h hag
  have hds : deStruct x σ (f + 1) ps false (.obj kvs) =
      (match mapM' (memberDe x σ f (fun p => Json.lookup kvs p.wire)) ps with
       | .ok fs => .ok (.struct fs)
       | .error e => .error e) := by
    rw [deStruct]
    simp only [hfl, Bool.false_and, Bool.false_eq_true, if_false]
    rfl
  rw [hds]
  cases hb : build sl with
  | ok fs => rw [hb] at key; simp only at key ⊢; rw [key]
  | error m => rw [hb] at key; simp only at key ⊢; rw [key]

/-! non-vacuity -/
example : build (unbuild [("a", .int 1)]) = .ok [("a", .int 1)] := by rfl
example : build [("a", .error "no value supplied for a")] = .error "no value supplied for a" := by rfl

end TypifyModel.C18

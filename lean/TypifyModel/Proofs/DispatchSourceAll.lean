import TypifyModel.Proofs.DispatchSource
import TypifyModel.Proofs.DispatchSourceS1
import TypifyModel.Proofs.DispatchSourceS2
/-! The pointwise theorems put together: for EVERY schema object, the guards of the source's arms 1..20 (as written in
    /repo now, table T11) evaluate to the guards of the model's table — so the first arm that matches is the same arm. -/
namespace TypifyModel.Dispatch
open TypifyModel TypifyModel.Excl TypifyModel.Generated

theorem guards_of_abs (kvs : Kvs) (ty : Ty) (hb : ty ≠ .bad) :
    (typedArms kvs (isSingle ty) (isUntyped ty) (isOne ty)).map (fun ga => some ga.1) =
    (typedArmsG (groupsOf kvs) .subschemasMerged (tyAbsSingle (absTy ty)) (tyAbsUntyped (absTy ty)) (tyAbsOne (absTy ty))).map
      (fun ga => some ga.1) := by
  cases ty with
  | bad => exact absurd rfl hb
  | none => rfl
  | single t => rfl
  | multi ts => rfl

/-- **the match as written and the model's table have the same guards on every schema object** -/
theorem typed_arms_agree (kvs : Kvs) (hb : tyOf kvs ≠ .bad) :
    ((dispatchArms.map compact).drop 1 |>.take 20).map (fun a => cGuard a (absTy (tyOf kvs)) (groupsOf kvs)) =
    (typedArms kvs (isSingle (tyOf kvs)) (isUntyped (tyOf kvs)) (isOne (tyOf kvs))).map (fun ga => some ga.1) := by
  rw [source_arms_as_read, guards_of_abs kvs _ hb]
  change expTyped.map _ = _
  generalize groupsOf kvs = g
  obtain ⟨fmt, en, cn, sub, num, str, arr, obj, rf⟩ := g
  cases hty : tyOf kvs with
  | bad => exact absurd hty hb
  | none => exact typed_arms_agree_none fmt en cn sub num str arr obj rf
  | multi ts => exact typed_arms_agree_multi _ _ _ _
  | single t =>
    cases t with
    | null => exact typed_arms_agree_null fmt en cn sub num str arr obj rf
    | boolean => exact typed_arms_agree_boolean fmt en cn sub num str arr obj rf
    | object => exact typed_arms_agree_object fmt en cn sub num str arr obj rf
    | array => exact typed_arms_agree_array fmt en cn sub num str arr obj rf
    | number => exact typed_arms_agree_number fmt en cn sub num str arr obj rf
    | string => exact typed_arms_agree_string fmt en cn sub num str arr obj rf
    | integer => exact typed_arms_agree_integer fmt en cn sub num str arr obj rf

end TypifyModel.Dispatch

namespace TypifyModel.Dispatch
open TypifyModel TypifyModel.Excl TypifyModel.Generated

/-! ### the first arm that matches -/

/-- position of the first arm whose patterns and guard hold; `none` when an arm without a reading comes first -/
def srcFirst (ty : TyAbs) (g : Groups) : List CArm → Nat → Option Nat
  | [], _ => none
  | c :: r, i =>
    match cGuard c ty g with
    | some true => some i
    | some false => srcFirst ty g r (i + 1)
    | none => none

/-- position of the first `true` -/
def firstTrue : List Bool → Nat → Option Nat
  | [], _ => none
  | b :: r, i => if b then some i else firstTrue r (i + 1)

theorem srcFirst_of_guards (ty : TyAbs) (g : Groups) :
    ∀ (l : List CArm) (bs : List Bool) (rest : List CArm) (i : Nat), l.map (fun c => cGuard c ty g) = bs.map some →
      srcFirst ty g (l ++ rest) i = (match firstTrue bs i with | some k => some k | none => srcFirst ty g rest (i + l.length)) := by
  intro l
  induction l with
  | nil =>
    intro bs rest i h
    have : bs = [] := by cases bs with | nil => rfl | cons b r => simp at h
    subst this; simp [firstTrue]
  | cons c l ih =>
    intro bs rest i h
    cases bs with
    | nil => simp at h
    | cons b r =>
      simp only [List.map_cons, List.cons.injEq] at h
      obtain ⟨hc, hr⟩ := h
      cases b with
      | true => simp [srcFirst, hc, firstTrue]
      | false =>
        simp only [List.cons_append, srcFirst, hc, firstTrue, Bool.false_eq_true, if_false]
        rw [ih r rest (i + 1) hr]
        have : i + 1 + l.length = i + (c :: l).length := by simp; omega
        rw [this]

def rwIdx : RW → Nat
  | .dropConst => 0 | .dropType => 1 | .oneType => 2 | .multiType => 3 | .todo => 4

theorem firstRW_idx (ty : TyAbs) (g : Groups) : ∀ (l : List (CArm × RW)) (i : Nat) (r : RW), firstRW ty g l = some r →
    (∀ p ∈ l.zipIdx, True) → ∃ k, srcFirst ty g (l.map (·.1)) i = some (i + k) ∧ (l.map (·.2))[k]? = some r := by
  intro l
  induction l with
  | nil => intro i r h; simp [firstRW] at h
  | cons p l ih =>
    intro i r h _
    obtain ⟨c, rr⟩ := p
    simp only [firstRW] at h
    cases hc : cGuard c ty g with
    | none => rw [hc] at h; cases h
    | some b =>
      rw [hc] at h
      cases b with
      | true => simp only at h; cases h; exact ⟨0, by simp [srcFirst, hc], by simp⟩
      | false =>
        simp only at h
        obtain ⟨k, hk, hk2⟩ := ih (i + 1) r h (fun _ _ => trivial)
        exact ⟨k + 1, by simp [srcFirst, hc, hk]; omega, by simpa using hk2⟩

/-- the kinds of the last five arms are pairwise different, so the position determines the kind -/
theorem expRewrite_kinds : expRewrite.map (·.2) = [.dropConst, .dropType, .oneType, .multiType, .todo] ∧
    expRewrite.map (·.1) = expectedArms.drop 21 := by decide +kernel

theorem rewrite_arms_agree (ty : TyAbs) (g : Groups) : firstRW ty g expRewrite = some (rwModel ty g) := by
  obtain ⟨fmt, en, cn, sub, num, str, arr, obj, rf⟩ := g
  cases ty with
  | none => exact rewrite_arms_agree_none fmt en cn sub num str arr obj rf
  | single t => exact rewrite_arms_agree_single t (mem_allJT t) fmt en cn sub num str arr obj rf
  | multi a b c => exact rewrite_arms_agree_multi a b c fmt en cn sub num str arr obj rf

/-- the guard of arm 0: a two-element type list with `null` -/
def nullableFires : TyAbs → Bool
  | .multi b _ _ => b
  | _ => false

theorem arm0_guard (ty : TyAbs) (g : Groups) :
    cGuard ⟨.vec, .any, .any, .any, .any, .any, .any, .any, .any, .any, some .twoWithNull⟩ ty g =
      some (nullableFires ty) := by
  cases ty <;> simp [cGuard, itB, fpB, guardKB, andO, nullableFires]

theorem expectedArms_split : expectedArms =
    [⟨.vec, .any, .any, .any, .any, .any, .any, .any, .any, .any, some .twoWithNull⟩] ++ (expTyped ++ expRewrite.map (·.1)) := by
  decide +kernel

/-- **the arm the source takes = the arm the model takes.** For every schema object whose `type` schemars can read, the first
    arm of `match schema` as written in /repo now (table T11) whose patterns and guard hold is: arm 0 exactly when the model's
    `armNullable` fires; otherwise arm 1 + k where k is the first guard of the model's table `typedArms` that holds; otherwise
    arm 21 + the kind `armsRewrite` takes (`armsRewrite_is_rwModel`) -/
theorem source_first_match (kvs : Kvs) (hb : tyOf kvs ≠ .bad) :
    srcFirst (absTy (tyOf kvs)) (groupsOf kvs) (dispatchArms.map compact) 0 =
      some (if nullableFires (absTy (tyOf kvs)) then 0
            else match firstTrue ((typedArms kvs (isSingle (tyOf kvs)) (isUntyped (tyOf kvs)) (isOne (tyOf kvs))).map (·.1)) 1 with
              | some k => k
              | none => 21 + rwIdx (rwModel (absTy (tyOf kvs)) (groupsOf kvs))) := by
  have hta := typed_arms_agree kvs hb
  rw [source_arms_as_read] at hta ⊢
  change expTyped.map _ = _ at hta
  rw [expectedArms_split]
  simp only [List.singleton_append, srcFirst, arm0_guard]
  cases h0 : nullableFires (absTy (tyOf kvs)) with
  | true => simp
  | false =>
    simp only [Bool.false_eq_true, if_false]
    have hmap : (typedArms kvs (isSingle (tyOf kvs)) (isUntyped (tyOf kvs)) (isOne (tyOf kvs))).map (fun ga => some ga.1) =
        ((typedArms kvs (isSingle (tyOf kvs)) (isUntyped (tyOf kvs)) (isOne (tyOf kvs))).map (·.1)).map some := by
      simp [List.map_map]
    rw [hmap] at hta
    rw [srcFirst_of_guards _ _ expTyped _ _ 1 hta]
    cases hft : firstTrue ((typedArms kvs (isSingle (tyOf kvs)) (isUntyped (tyOf kvs)) (isOne (tyOf kvs))).map (·.1)) 1 with
    | some k => rfl
    | none =>
      simp only
      obtain ⟨k, hk, hk2⟩ := firstRW_idx (absTy (tyOf kvs)) (groupsOf kvs) expRewrite (1 + expTyped.length) _
        (rewrite_arms_agree _ _) (fun _ _ => trivial)
      rw [hk]
      have hlen : expTyped.length = 20 := by decide +kernel
      rw [expRewrite_kinds.1] at hk2
      have : k = rwIdx (rwModel (absTy (tyOf kvs)) (groupsOf kvs)) := by
        cases hr : rwModel (absTy (tyOf kvs)) (groupsOf kvs) <;> rw [hr] at hk2 <;>
          (match k, hk2 with
           | 0, h => first | rfl | (simp at h)
           | 1, h => first | rfl | (simp at h)
           | 2, h => first | rfl | (simp at h)
           | 3, h => first | rfl | (simp at h)
           | 4, h => first | rfl | (simp at h)
           | n + 5, h => simp at h)
      rw [this, hlen]

end TypifyModel.Dispatch

import TypifyModel.Proofs.DispatchSource
import TypifyModel.Proofs.DispatchSourceS1
import TypifyModel.Proofs.DispatchSourceS2
/-! The pointwise theorems put together: for EVERY schema object, the guards of the source's arms 1..20 (as written in
    /repo now, table T11) evaluate to the guards of the model's table — so the first arm that matches is the same arm. -/
namespace TypifyModel.Dispatch
open TypifyModel TypifyModel.Excl TypifyModel.Generated

theorem guards_of_abs (kvs : Kvs) (ty : Ty) (hb : ty ≠ .bad) :
    (typedArms kvs (isSingle ty) (isUntyped ty) (isOne ty)).map (fun ga => some ga.1) =
    (typedArmsG (groupsOf kvs) .subschemasMerged (tyAbsSingle (absTy ty)) (tyAbsUntyped (absTy ty)) (tyAbsOne (absTy ty))).map
      (fun ga => some ga.1) := by
  cases ty with
  | bad => exact absurd rfl hb
  | none => rfl
  | single t => rfl
  | multi ts => rfl

/-- **the match as written and the model's table have the same guards on every schema object** -/
theorem typed_arms_agree (kvs : Kvs) (hb : tyOf kvs ≠ .bad) :
    ((dispatchArms.map compact).drop 1 |>.take 20).map (fun a => cGuard a (absTy (tyOf kvs)) (groupsOf kvs)) =
    (typedArms kvs (isSingle (tyOf kvs)) (isUntyped (tyOf kvs)) (isOne (tyOf kvs))).map (fun ga => some ga.1) := by
  rw [source_arms_as_read, guards_of_abs kvs _ hb]
  change expTyped.map _ = _
  generalize groupsOf kvs = g
  obtain ⟨fmt, en, cn, sub, num, str, arr, obj, rf⟩ := g
  cases hty : tyOf kvs with
  | bad => exact absurd hty hb
  | none => exact typed_arms_agree_none fmt en cn sub num str arr obj rf
  | multi ts => exact typed_arms_agree_multi _ _ _ _
  | single t =>
    cases t with
    | null => exact typed_arms_agree_null fmt en cn sub num str arr obj rf
    | boolean => exact typed_arms_agree_boolean fmt en cn sub num str arr obj rf
    | object => exact typed_arms_agree_object fmt en cn sub num str arr obj rf
    | array => exact typed_arms_agree_array fmt en cn sub num str arr obj rf
    | number => exact typed_arms_agree_number fmt en cn sub num str arr obj rf
    | string => exact typed_arms_agree_string fmt en cn sub num str arr obj rf
    | integer => exact typed_arms_agree_integer fmt en cn sub num str arr obj rf

end TypifyModel.Dispatch
